package main

import (
	"fmt"
	"go/ast"
	"go/importer"
	"go/parser"
	"go/token"
	"go/types"
	"sort"
	"strings"
)

// Rules whose expected number of findings on a healthy tree is zero. Each
// matcher works on (files, types.Info) so that it can also be run on a small
// positive-control fixture (a Go source text kept in this file): the fixture
// must match on every run, otherwise the rule has silently stopped seeing the
// construct and the check fails.

type synSite struct {
	pos  token.Pos
	key  string
	msg  string
	file *ast.File
}

type synMatcher func(files []*ast.File, info *types.Info) (sites []synSite, examined int)

// loadFixture type-checks a fixture from source (standard library only).
func loadFixture(src string) ([]*ast.File, *types.Info, *token.FileSet, error) {
	fset := token.NewFileSet()
	f, err := parser.ParseFile(fset, "fixture.go", src, 0)
	if err != nil {
		return nil, nil, nil, err
	}
	info := &types.Info{Types: map[ast.Expr]types.TypeAndValue{}, Defs: map[*ast.Ident]types.Object{}, Uses: map[*ast.Ident]types.Object{}, Selections: map[*ast.SelectorExpr]*types.Selection{}, Implicits: map[ast.Node]types.Object{}}
	conf := types.Config{Importer: importer.ForCompiler(fset, "source", nil)}
	if _, err := conf.Check("fixture", fset, []*ast.File{f}, info); err != nil {
		return nil, nil, nil, err
	}
	return []*ast.File{f}, info, fset, nil
}

// runSynRule applies a matcher to the listed packages and to its fixture.
func runSynRule(prog *Program, rep *Report, rule string, rels []string, m synMatcher, fixture string, wantFixture int, floor int) {
	ff, finfo, _, err := loadFixture(fixture)
	if err != nil {
		rep.Errorf("%s: positive-control fixture does not type-check: %v", rule, err)
		return
	}
	fs, _ := m(ff, finfo)
	if len(fs) != wantFixture {
		rep.Errorf("%s: the positive-control fixture produced %d matches (want %d): the matcher no longer sees the construct", rule, len(fs), wantFixture)
		return
	}
	rep.Discharge(rule, "positive-control", "checker/rules_extra.go", fmt.Sprintf("fixture matched %d time(s)", len(fs)))
	total := 0
	for _, rel := range rels {
		pk := prog.Pkg(rel)
		if pk == nil {
			rep.Errorf("%s: package %s not loaded", rule, rel)
			continue
		}
		sites, n := m(pk.Syntax, pk.TypesInfo)
		total += n
		sort.Slice(sites, func(i, j int) bool { return sites[i].key < sites[j].key })
		for _, s := range sites {
			rep.Violate(Finding{Rule: rule, Key: rel + "." + s.key, Pos: prog.Pos(s.pos), Msg: s.msg})
		}
		rep.Discharge(rule, rel, rel, fmt.Sprintf("%d constructs examined, %d matches", n, len(sites)))
	}
	rep.Eval(total)
	if total < floor {
		rep.Errorf("%s examined %d constructs (floor %d): anchors did not resolve", rule, total, floor)
	}
}

func enclosingFuncName(file *ast.File, pos token.Pos) string {
	name := "?"
	for _, d := range file.Decls {
		fd, ok := d.(*ast.FuncDecl)
		if !ok || fd.Body == nil || pos < fd.Pos() || pos > fd.End() {
			continue
		}
		name = fd.Name.Name
		if fd.Recv != nil && len(fd.Recv.List) == 1 {
			name = types.ExprString(fd.Recv.List[0].Type) + "." + name
		}
	}
	return strings.ReplaceAll(name, "*", "")
}

// ---------------------------------------------------------------- A-appendretain

// matchAppendRetain: inside a loop, append(B, ...) whose result is retained (a
// composite-literal field or element, or an element appended to another
// slice) while B is declared outside the innermost loop and is not the
// destination: the next iteration appends to the same B, and when B has spare
// capacity every retained result shares one backing array.
func matchAppendRetain(files []*ast.File, info *types.Info) (sites []synSite, examined int) {
	for _, f := range files {
		var stack []ast.Node
		ast.Inspect(f, func(n ast.Node) bool {
			if n == nil {
				stack = stack[:len(stack)-1]
				return true
			}
			stack = append(stack, n)
			call, ok := n.(*ast.CallExpr)
			if !ok || len(call.Args) < 2 || call.Ellipsis.IsValid() && len(call.Args) != 2 {
				return true
			}
			id, ok := call.Fun.(*ast.Ident)
			if !ok || id.Name != "append" {
				return true
			}
			if _, isBuiltin := info.Uses[id].(*types.Builtin); !isBuiltin {
				return true
			}
			examined++
			// innermost loop
			var loop ast.Node
			for i := len(stack) - 1; i >= 0; i-- {
				switch stack[i].(type) {
				case *ast.ForStmt, *ast.RangeStmt:
					loop = stack[i]
				case *ast.FuncLit, *ast.FuncDecl:
					i = -1
				}
				if loop != nil {
					break
				}
			}
			if loop == nil {
				return true
			}
			// retained?
			parent := stack[len(stack)-2]
			retained := false
			switch p := parent.(type) {
			case *ast.KeyValueExpr:
				retained = p.Value == call
			case *ast.CompositeLit:
				retained = true
			case *ast.CallExpr:
				if pid, ok := p.Fun.(*ast.Ident); ok && pid.Name == "append" && len(p.Args) >= 2 && p.Args[0] != call {
					retained = true
				}
			}
			if !retained {
				return true
			}
			// base: a variable or field declared outside the loop, with unknown capacity
			base := ast.Unparen(call.Args[0])
			var root *ast.Ident
			switch b := base.(type) {
			case *ast.Ident:
				root = b
			case *ast.SelectorExpr:
				x := b.X
				for {
					if s, ok := x.(*ast.SelectorExpr); ok {
						x = s.X
						continue
					}
					break
				}
				root, _ = x.(*ast.Ident)
			}
			if root == nil {
				return true
			}
			obj := info.Uses[root]
			if obj == nil || obj.Pos() == token.NoPos {
				return true
			}
			if tv, ok := info.Types[base]; ok && tv.IsNil() {
				return true
			}
			if obj.Pos() >= loop.Pos() && obj.Pos() <= loop.End() {
				// declared inside the innermost loop: is it the loop's own iteration variable of an enclosing
				// range? then it still is one B per outer iteration, appended once per inner iteration - handled
				// by the enclosing-loop test below
				if bodyOf(loop) != nil && obj.Pos() >= bodyOf(loop).Pos() {
					return true // fresh in every iteration
				}
			}
			sites = append(sites, synSite{pos: call.Pos(), file: f, key: enclosingFuncName(f, call.Pos()) + ":append-retained:" + types.ExprString(base),
				msg: fmt.Sprintf("append(%s, ...) in a loop is stored in a retained value while %s itself is not reassigned: when %s has spare capacity every iteration writes the same backing array and earlier results change (copy first, or append to a fresh slice)", types.ExprString(base), types.ExprString(base), types.ExprString(base))})
			return true
		})
	}
	return
}

func bodyOf(loop ast.Node) *ast.BlockStmt {
	switch l := loop.(type) {
	case *ast.ForStmt:
		return l.Body
	case *ast.RangeStmt:
		return l.Body
	}
	return nil
}

const fixtureAppendRetain = `package fixture

type scanT struct {
	index []int
}

func walk(cur []scanT, n int) []scanT {
	var next []scanT
	for _, scan := range cur {
		for i := 0; i < n; i++ {
			next = append(next, scanT{index: append(scan.index, i)})
		}
	}
	return next
}

func fine(cur []scanT, n int) []scanT {
	var next []scanT
	for _, scan := range cur {
		for i := 0; i < n; i++ {
			var index []int
			index = append(index, scan.index...)
			index = append(index, i)
			next = append(next, scanT{index: index})
		}
	}
	return next
}
`

func ruleAppendRetain(prog *Program, rep *Report, rels ...string) {
	rep.Rules = append(rep.Rules, "A-appendretain: no append(B, ...) inside a loop whose result is kept in a composite literal or appended into another slice while B is declared outside the loop body and is not the destination (shared backing array: index paths, collected results or path prefixes of earlier iterations are overwritten)")
	runSynRule(prog, rep, "A-appendretain", rels, matchAppendRetain, fixtureAppendRetain, 1, 20)
}

// ---------------------------------------------------------------- M-presence

// matchPresenceByNil: the member of a JSON object (a map whose values are any /
// an interface) is looked up with the one-result form and its presence is
// decided by comparing the result with nil: a member whose value is null is
// then treated as missing.
func matchPresenceByNil(files []*ast.File, info *types.Info) (sites []synSite, examined int) {
	isDataMapIndex := func(e ast.Expr) bool {
		ix, ok := ast.Unparen(e).(*ast.IndexExpr)
		if !ok {
			return false
		}
		t := info.TypeOf(ix.X)
		if t == nil {
			return false
		}
		m, ok := t.Underlying().(*types.Map)
		if !ok {
			return false
		}
		_, isIface := m.Elem().Underlying().(*types.Interface)
		return isIface
	}
	nilCmp := func(cond ast.Expr, obj types.Object) bool {
		found := false
		ast.Inspect(cond, func(n ast.Node) bool {
			be, ok := n.(*ast.BinaryExpr)
			if !ok || (be.Op != token.EQL && be.Op != token.NEQ) {
				return true
			}
			for _, pair := range [][2]ast.Expr{{be.X, be.Y}, {be.Y, be.X}} {
				tv, ok := info.Types[pair[1]]
				if !ok || !tv.IsNil() {
					continue
				}
				if obj == nil {
					if isDataMapIndex(pair[0]) {
						found = true
					}
					continue
				}
				if id, ok := ast.Unparen(pair[0]).(*ast.Ident); ok && (info.Uses[id] == obj || info.Defs[id] == obj) {
					found = true
				}
			}
			return true
		})
		return found
	}
	for _, f := range files {
		ast.Inspect(f, func(n ast.Node) bool {
			ifs, ok := n.(*ast.IfStmt)
			if !ok {
				return true
			}
			examined++
			// if m[k] != nil
			if nilCmp(ifs.Cond, nil) {
				sites = append(sites, synSite{pos: ifs.Pos(), file: f, key: enclosingFuncName(f, ifs.Pos()) + ":presence-by-nil",
					msg: "presence of an object member is decided by comparing m[k] with nil: a member whose value is null is treated as missing (use the v, has := m[k] form)"})
				return true
			}
			// if v = m[k]; v != nil
			as, ok := ifs.Init.(*ast.AssignStmt)
			if !ok || len(as.Lhs) != 1 || len(as.Rhs) != 1 || !isDataMapIndex(as.Rhs[0]) {
				return true
			}
			id, ok := as.Lhs[0].(*ast.Ident)
			if !ok {
				return true
			}
			obj := info.Defs[id]
			if obj == nil {
				obj = info.Uses[id]
			}
			if obj != nil && nilCmp(ifs.Cond, obj) {
				sites = append(sites, synSite{pos: ifs.Pos(), file: f, key: enclosingFuncName(f, ifs.Pos()) + ":presence-by-nil:" + id.Name,
					msg: "presence of an object member is decided by comparing the looked-up value with nil: a member whose value is null is treated as missing (use the v, has := m[k] form)"})
			}
			return true
		})
	}
	return
}

const fixturePresence = `package fixture

func get(m map[string]any, k string) (any, bool) {
	if v := m[k]; v != nil {
		return v, true
	}
	return nil, false
}

func get2(m map[string]any, k string) bool {
	if m[k] == nil {
		return false
	}
	return true
}

func fine(m map[string]any, k string) (any, bool) {
	if v, has := m[k]; has {
		return v, true
	}
	return nil, false
}

func ptrs(m map[string]*int, k string) bool {
	if p := m[k]; p != nil {
		return true
	}
	return false
}
`

func rulePresenceByNil(prog *Program, rep *Report) {
	rep.Rules = append(rep.Rules, "M-presence: in package jp no if-statement decides the presence of an object member (index of a map with interface values) by comparing the one-result lookup with nil; JSONPath distinguishes a null member from a missing one (Get returns [nil], Has is true, a filter sees null), so presence must come from the two-result form")
	runSynRule(prog, rep, "M-presence", []string{"jp"}, matchPresenceByNil, fixturePresence, 2, 300)
}

// ---------------------------------------------------------------- P-elide

// matchElideGuard: a formatter omits a number when it has the default value
// (the parser reads the omitted position as that default). The guard must be an
// equality test: an ordering test omits a whole range of values.
func matchElideGuard(files []*ast.File, info *types.Info) (sites []synSite, examined int) {
	isFormatCall := func(n ast.Node) bool {
		c, ok := n.(*ast.CallExpr)
		if !ok {
			return false
		}
		sel, ok := c.Fun.(*ast.SelectorExpr)
		if !ok {
			return false
		}
		if id, ok := sel.X.(*ast.Ident); ok {
			if pn, ok := info.Uses[id].(*types.PkgName); ok && pn.Imported().Path() == "strconv" {
				return strings.HasPrefix(sel.Sel.Name, "Format") || strings.HasPrefix(sel.Sel.Name, "Append") || sel.Sel.Name == "Itoa"
			}
		}
		return false
	}
	for _, f := range files {
		for _, d := range f.Decls {
			fd, ok := d.(*ast.FuncDecl)
			if !ok || fd.Body == nil || fd.Recv == nil || (fd.Name.Name != "Append" && fd.Name.Name != "String") {
				continue
			}
			ast.Inspect(fd.Body, func(n ast.Node) bool {
				ifs, ok := n.(*ast.IfStmt)
				if !ok || ifs.Else != nil {
					return true
				}
				// the body only formats a number
				formats := false
				var formatted []types.Object
				ast.Inspect(ifs.Body, func(k ast.Node) bool {
					if isFormatCall(k) {
						formats = true
						ast.Inspect(k, func(a ast.Node) bool {
							if id, ok := a.(*ast.Ident); ok {
								if o, ok := info.Uses[id].(*types.Var); ok {
									formatted = append(formatted, o)
								}
							}
							return true
						})
					}
					return true
				})
				if !formats || len(ifs.Body.List) != 1 {
					return true
				}
				be, ok := ast.Unparen(ifs.Cond).(*ast.BinaryExpr)
				if !ok {
					return true
				}
				// one side a formatted variable, the other a constant
				var v, c ast.Expr
				if tv, ok := info.Types[be.Y]; ok && tv.Value != nil {
					v, c = be.X, be.Y
				} else if tv, ok := info.Types[be.X]; ok && tv.Value != nil {
					v, c = be.Y, be.X
				}
				if v == nil {
					return true
				}
				id, ok := ast.Unparen(v).(*ast.Ident)
				if !ok {
					return true
				}
				isFormatted := false
				for _, o := range formatted {
					if info.Uses[id] == o {
						isFormatted = true
					}
				}
				if !isFormatted {
					return true
				}
				examined++
				switch be.Op {
				case token.EQL, token.NEQ:
				default:
					sites = append(sites, synSite{pos: ifs.Pos(), file: f, key: enclosingFuncName(f, ifs.Pos()) + ":elide:" + id.Name,
						msg: fmt.Sprintf("the number %s is written only when %s: every other value is omitted from the text, but the reader takes an omitted position as one default value (the test must be != default)", id.Name, types.ExprString(be))})
					_ = c
				}
				return true
			})
		}
	}
	return
}

const fixtureElide = `package fixture

import "strconv"

type sl []int

func (f sl) Append(buf []byte) []byte {
	for i, n := range f {
		switch i {
		case 0:
			if 0 < n {
				buf = append(buf, strconv.FormatInt(int64(n), 10)...)
			}
		case 1:
			if n != -1 {
				buf = append(buf, strconv.FormatInt(int64(n), 10)...)
			}
		}
	}
	return buf
}
`

func ruleElideGuard(prog *Program, rep *Report) {
	rep.Rules = append(rep.Rules, "P-elide: in the Append/String methods of package jp, an if (without else) whose only statement writes a formatted number and whose condition compares that number with a constant uses == or != (the omitted text is read back as exactly one default; an ordering test drops a range of values, e.g. every negative slice start)")
	runSynRule(prog, rep, "P-elide", []string{"jp"}, matchElideGuard, fixtureElide, 1, 2)
}

// ---------------------------------------------------------------- P-prec

// rulePrecAgree: the script printer parenthesises the right operand exactly
// when the parser's precedence correction would otherwise rotate it; both are
// comparisons of the operator precedence of an equation and of its right
// child. All such comparisons must be the same relation.
func rulePrecAgree(prog *Program, rep *Report) {
	rep.Rules = append(rep.Rules, "P-prec: every comparison between the precedence of an equation's operator and that of its right (resp. left) child - in the parser's precedence correction and in Equation.Append's parenthesis arguments - is the same relation after normalising operand order: the printer adds parentheses exactly where re-parsing would re-associate")
	pk := prog.Pkg("jp")
	if pk == nil {
		rep.Errorf("P-prec: package jp not loaded")
		return
	}
	info := pk.TypesInfo
	// a comparison of X.o.prec with X.<side>.o.prec
	type rel struct {
		side string
		op   token.Token // relation parent OP child
		pos  token.Pos
		fn   string
	}
	precOf := func(e ast.Expr) (string, bool) {
		// returns "" for parent (e.o.prec), "right"/"left" for child (e.right.o.prec)
		s1, ok := ast.Unparen(e).(*ast.SelectorExpr)
		if !ok || s1.Sel.Name != "prec" {
			return "", false
		}
		s2, ok := s1.X.(*ast.SelectorExpr)
		if !ok || s2.Sel.Name != "o" {
			return "", false
		}
		switch x := s2.X.(type) {
		case *ast.Ident:
			return "", true
		case *ast.SelectorExpr:
			if _, ok := x.X.(*ast.Ident); ok && (x.Sel.Name == "right" || x.Sel.Name == "left") {
				return x.Sel.Name, true
			}
		}
		return "", false
	}
	flip := map[token.Token]token.Token{token.LSS: token.GTR, token.GTR: token.LSS, token.LEQ: token.GEQ, token.GEQ: token.LEQ, token.EQL: token.EQL, token.NEQ: token.NEQ}
	var rels []rel
	for _, f := range pk.Syntax {
		ast.Inspect(f, func(n ast.Node) bool {
			be, ok := n.(*ast.BinaryExpr)
			if !ok {
				return true
			}
			if _, ok := flip[be.Op]; !ok {
				return true
			}
			a, okA := precOf(be.X)
			b, okB := precOf(be.Y)
			if !okA || !okB || (a == "") == (b == "") {
				return true
			}
			// same root identifier on both sides
			op := be.Op
			side := b
			if a != "" {
				side = a
				op = flip[op]
			}
			rels = append(rels, rel{side: side, op: op, pos: be.Pos(), fn: enclosingFuncName(f, be.Pos())})
			return true
		})
	}
	_ = info
	bySide := map[string][]rel{}
	for _, r := range rels {
		bySide[r.side] = append(bySide[r.side], r)
	}
	if len(bySide["right"]) < 3 {
		rep.Errorf("P-prec found %d comparisons of an operator's precedence with its right child's (floor 3): anchors did not resolve", len(bySide["right"]))
	}
	for _, side := range []string{"left", "right"} {
		rs := bySide[side]
		if len(rs) == 0 {
			continue
		}
		// majority relation
		cnt := map[token.Token]int{}
		for _, r := range rs {
			cnt[r.op]++
		}
		var best token.Token
		for op, c := range cnt {
			if c > cnt[best] || (c == cnt[best] && op < best) {
				best = op
			}
		}
		// the printer's relation is the reference when present
		for _, r := range rs {
			if strings.HasSuffix(r.fn, ".Append") {
				best = r.op
			}
		}
		for i, r := range rs {
			key := fmt.Sprintf("jp.%s:prec-%s#%d", r.fn, side, i)
			if r.op == best {
				rep.Discharge("P-prec", key, prog.Pos(r.pos), fmt.Sprintf("parent.prec %s %s.prec", r.op, side))
				continue
			}
			rep.Violate(Finding{Rule: "P-prec", Key: fmt.Sprintf("jp.%s:prec-%s:%s", r.fn, side, r.op), Pos: prog.Pos(r.pos),
				Msg: fmt.Sprintf("%s compares parent.prec %s %s.prec while the printer (and the other sites) use %s: an operator chain of equal precedence is printed without parentheses but re-parsed with a different association", r.fn, r.op, side, best)})
		}
	}
	rep.Eval(len(rels))
}

// ---------------------------------------------------------------- R-prereg

// rulePreRegister: registering a type with a Recomposer must also register
// every struct type reachable through the container kinds that recomposition
// descends through; otherwise Recompose registers lazily (a map write) and a
// shared Recomposer races.
func rulePreRegister(prog *Program, rep *Report) {
	rep.Rules = append(rep.Rules, "R-prereg: the container kinds that registerComposer unwraps to the element type when it walks struct fields (reflect.Array, Slice, Map, Ptr) include every kind for which the recompose walk takes Elem() of the target type: a nested struct behind a kind that registration does not unwrap is registered lazily during Recompose, i.e. the shared composers map is written by concurrent callers")
	pk := prog.Pkg("alt")
	if pk == nil {
		rep.Errorf("R-prereg: package alt not loaded")
		return
	}
	info := pk.TypesInfo
	kindName := func(e ast.Expr) string {
		sel, ok := ast.Unparen(e).(*ast.SelectorExpr)
		if !ok {
			return ""
		}
		if id, ok := sel.X.(*ast.Ident); ok {
			if pn, ok := info.Uses[id].(*types.PkgName); ok && pn.Imported().Path() == "reflect" {
				return sel.Sel.Name
			}
		}
		return ""
	}
	callsElem := func(n ast.Node) bool {
		found := false
		ast.Inspect(n, func(k ast.Node) bool {
			c, ok := k.(*ast.CallExpr)
			if !ok {
				return true
			}
			if sel, ok := c.Fun.(*ast.SelectorExpr); ok && sel.Sel.Name == "Elem" && len(c.Args) == 0 {
				if t := info.TypeOf(sel.X); t != nil && strings.HasSuffix(t.String(), "reflect.Type") {
					found = true
				}
			}
			return true
		})
		return found
	}
	reg := map[string]bool{}
	walk := map[string]token.Pos{}
	var regPos token.Pos
	for _, f := range pk.Syntax {
		for _, d := range f.Decls {
			fd, ok := d.(*ast.FuncDecl)
			if !ok || fd.Body == nil || fd.Recv == nil {
				continue
			}
			rt := strings.ReplaceAll(types.ExprString(fd.Recv.List[0].Type), "*", "")
			if rt != "Recomposer" {
				continue
			}
			ast.Inspect(fd.Body, func(n ast.Node) bool {
				sw, ok := n.(*ast.SwitchStmt)
				if !ok || sw.Tag == nil {
					return true
				}
				tc, ok := ast.Unparen(sw.Tag).(*ast.CallExpr)
				if !ok {
					return true
				}
				tsel, ok := tc.Fun.(*ast.SelectorExpr)
				if !ok || tsel.Sel.Name != "Kind" {
					return true
				}
				for _, cl := range sw.Body.List {
					cc := cl.(*ast.CaseClause)
					if !callsElem(cc) {
						continue
					}
					for _, e := range cc.List {
						k := kindName(e)
						if k == "" {
							continue
						}
						if fd.Name.Name == "registerComposer" {
							reg[k] = true
							regPos = sw.Pos()
						} else {
							if _, ok := walk[k]; !ok {
								walk[k] = cc.Pos()
							}
						}
					}
				}
				return true
			})
		}
	}
	if len(reg) < 2 || len(walk) < 2 {
		rep.Errorf("R-prereg: found %d kinds unwrapped at registration and %d kinds descended at recomposition (floor 2 each): anchors did not resolve", len(reg), len(walk))
		return
	}
	var ks []string
	for k := range walk {
		ks = append(ks, k)
	}
	sort.Strings(ks)
	for _, k := range ks {
		if k == "Struct" || k == "Interface" {
			continue
		}
		if reg[k] {
			rep.Discharge("R-prereg", "alt.Recomposer:kind:"+k, prog.Pos(walk[k]), "unwrapped at registration")
			continue
		}
		rep.Violate(Finding{Rule: "R-prereg", Key: "alt.Recomposer:kind:" + k + ":not-unwrapped", Pos: prog.Pos(regPos),
			Msg: fmt.Sprintf("recomposition takes the element type of a reflect.%s target (%s) but registerComposer does not unwrap reflect.%s fields: a struct nested behind such a field is first registered during Recompose, which writes the composers map of a Recomposer that may be shared by goroutines", k, prog.Pos(walk[k]), k)})
	}
	rep.Eval(len(walk))
}

// ---------------------------------------------------------------- F-okdrop

// matchOkDrop: a same-package conversion helper with results (T, bool) is called
// with the bool discarded although nothing guarantees the conversion succeeds:
// the zero value of T then takes part in a comparison (0 equals 0, "" equals "").
// The discard is accepted when the argument is the value switched on by the
// enclosing type switch (the case list already selected convertible types).
func matchOkDrop(files []*ast.File, info *types.Info) (sites []synSite, examined int) {
	for _, f := range files {
		var stack []ast.Node
		ast.Inspect(f, func(n ast.Node) bool {
			if n == nil {
				stack = stack[:len(stack)-1]
				return true
			}
			stack = append(stack, n)
			as, ok := n.(*ast.AssignStmt)
			if !ok || len(as.Lhs) != 2 || len(as.Rhs) != 1 {
				return true
			}
			call, ok := ast.Unparen(as.Rhs[0]).(*ast.CallExpr)
			if !ok || len(call.Args) != 1 {
				return true
			}
			id, ok := call.Fun.(*ast.Ident)
			if !ok {
				return true
			}
			fn, ok := info.Uses[id].(*types.Func)
			if !ok {
				return true
			}
			sig := fn.Type().(*types.Signature)
			if sig.Results().Len() != 2 || sig.Recv() != nil {
				return true
			}
			if b, ok := sig.Results().At(1).Type().Underlying().(*types.Basic); !ok || b.Kind() != types.Bool {
				return true
			}
			examined++
			blank, ok := as.Lhs[1].(*ast.Ident)
			if !ok || blank.Name != "_" {
				return true
			}
			// the argument is the subject of an enclosing type switch?
			arg, _ := ast.Unparen(call.Args[0]).(*ast.Ident)
			guarded := false
			if arg != nil {
				argObj := info.Uses[arg]
				for i := len(stack) - 1; i >= 0 && !guarded; i-- {
					if cc, ok := stack[i].(*ast.CaseClause); ok && argObj != nil && info.Implicits[cc] == argObj {
						guarded = true // the variable bound by `switch v := x.(type)` in this clause
						break
					}
					ts, ok := stack[i].(*ast.TypeSwitchStmt)
					if !ok {
						continue
					}
					var x ast.Expr
					switch a := ts.Assign.(type) {
					case *ast.ExprStmt:
						if ta, ok := a.X.(*ast.TypeAssertExpr); ok {
							x = ta.X
						}
					case *ast.AssignStmt:
						if ta, ok := a.Rhs[0].(*ast.TypeAssertExpr); ok {
							x = ta.X
						}
					}
					if xid, ok := ast.Unparen(x).(*ast.Ident); ok && info.Uses[xid] == argObj && argObj != nil {
						guarded = true
					}
				}
			}
			if guarded {
				return true
			}
			sites = append(sites, synSite{pos: as.Pos(), file: f, key: enclosingFuncName(f, as.Pos()) + ":okdrop:" + fn.Name() + "(" + types.ExprString(call.Args[0]) + ")",
				msg: fmt.Sprintf("the success flag of %s(%s) is discarded and nothing selects a convertible value first: when the conversion fails the zero value is used as if it were the operand (0 matches 0, a fraction is truncated)", fn.Name(), types.ExprString(call.Args[0]))})
			return true
		})
	}
	return
}

const fixtureOkDrop = `package fixture

func asInt(v any) (int64, bool) {
	switch t := v.(type) {
	case int:
		return int64(t), true
	case int64:
		return t, true
	}
	return 0, false
}

func match(fingerprint, target any) bool {
	switch fp := fingerprint.(type) {
	case int, int64:
		i0, _ := asInt(fp)
		if i1, _ := asInt(target); i0 != i1 {
			return false
		}
	}
	return true
}
`

func ruleOkDrop(prog *Program, rep *Report, rels ...string) {
	rep.Rules = append(rep.Rules, "F-okdrop: the bool result of a same-package conversion helper ((T, bool), one argument) is discarded only where the argument is the subject of an enclosing type switch (the case list already selected convertible values); elsewhere a failed conversion would feed the zero value into a comparison")
	runSynRule(prog, rep, "F-okdrop", rels, matchOkDrop, fixtureOkDrop, 1, 6)
}

// ---------------------------------------------------------------- M-copyall

// matchCopyOrOriginal: a function copies a slice (copy(dst, src) with dst made in
// the function) - its contract is to hand out a copy - but some return statement
// returns src itself: on that path the caller receives the original.
func matchCopyOrOriginal(files []*ast.File, info *types.Info) (sites []synSite, examined int) {
	for _, f := range files {
		for _, d := range f.Decls {
			fd, ok := d.(*ast.FuncDecl)
			if !ok || fd.Body == nil {
				continue
			}
			// sources of copy(dst, src) where dst is a local assigned from make(...)
			made := map[types.Object]bool{}
			ast.Inspect(fd.Body, func(n ast.Node) bool {
				as, ok := n.(*ast.AssignStmt)
				if !ok {
					return true
				}
				for i, l := range as.Lhs {
					id, ok := l.(*ast.Ident)
					if !ok || i >= len(as.Rhs) {
						continue
					}
					if c, ok := ast.Unparen(as.Rhs[i]).(*ast.CallExpr); ok {
						if fid, ok := c.Fun.(*ast.Ident); ok && fid.Name == "make" {
							if o := info.Defs[id]; o != nil {
								made[o] = true
							} else if o := info.Uses[id]; o != nil {
								made[o] = true
							}
						}
					}
				}
				return true
			})
			srcs := map[types.Object]token.Pos{}
			ast.Inspect(fd.Body, func(n ast.Node) bool {
				c, ok := n.(*ast.CallExpr)
				if !ok || len(c.Args) != 2 {
					return true
				}
				fid, ok := c.Fun.(*ast.Ident)
				if !ok || fid.Name != "copy" {
					return true
				}
				if _, isBuiltin := info.Uses[fid].(*types.Builtin); !isBuiltin {
					return true
				}
				dst, _ := ast.Unparen(c.Args[0]).(*ast.Ident)
				src, _ := ast.Unparen(c.Args[1]).(*ast.Ident)
				if dst == nil || src == nil || !made[info.Uses[dst]] {
					return true
				}
				if o := info.Uses[src]; o != nil {
					srcs[o] = c.Pos()
				}
				return true
			})
			if len(srcs) == 0 {
				continue
			}
			examined++
			ast.Inspect(fd.Body, func(n ast.Node) bool {
				if _, isLit := n.(*ast.FuncLit); isLit {
					return false
				}
				rs, ok := n.(*ast.ReturnStmt)
				if !ok {
					return true
				}
				for _, r := range rs.Results {
					if id, ok := ast.Unparen(r).(*ast.Ident); ok {
						if _, isSrc := srcs[info.Uses[id]]; isSrc {
							sites = append(sites, synSite{pos: rs.Pos(), file: f, key: enclosingFuncName(f, rs.Pos()) + ":returns-original:" + id.Name,
								msg: fmt.Sprintf("%s is copied into a fresh slice elsewhere in this function, but this return hands out %s itself: on this path the caller gets the original (a later in-place change of the result changes the source)", id.Name, id.Name)})
						}
					}
				}
				return true
			})
		}
	}
	return
}

const fixtureCopyOrOriginal = `package fixture

import "sort"

func sorted(list []int) []int {
	list2 := make([]int, len(list))
	copy(list2, list)
	if len(list2) < 2 {
		return list
	}
	sort.Ints(list2)
	return list2
}

func fine(list []int) []int {
	list2 := make([]int, len(list))
	copy(list2, list)
	sort.Ints(list2)
	return list2
}
`

func ruleCopyOrOriginal(prog *Program, rep *Report, floor int, rels ...string) {
	rep.Rules = append(rep.Rules, "M-copyall: a function that copies a slice into one it allocates (copy(dst, src), dst from make) never returns src itself: a fast path that skips the work must still hand out the copy")
	runSynRule(prog, rep, "M-copyall", rels, matchCopyOrOriginal, fixtureCopyOrOriginal, 1, floor)
}

// ---------------------------------------------------------------- W-sep

// matchSeparatorBeforeAbsent: a loop writes a list of optional elements (the loop
// body tests a loop-local pointer against nil) and appends the separator in a
// place that is not control dependent on the element being present: when the
// remaining elements are absent the text ends with a separator.
func matchSeparatorBeforeAbsent(files []*ast.File, info *types.Info) (sites []synSite, examined int) {
	isSep := func(e ast.Expr) bool {
		// append(X, comma...) with a []byte variable named like a separator, or append(X, ',')
		c, ok := e.(*ast.CallExpr)
		if !ok || len(c.Args) != 2 {
			return false
		}
		if id, ok := c.Fun.(*ast.Ident); !ok || id.Name != "append" {
			return false
		}
		switch a := ast.Unparen(c.Args[1]).(type) {
		case *ast.Ident:
			return c.Ellipsis.IsValid() && strings.Contains(strings.ToLower(a.Name), "comma")
		case *ast.BasicLit:
			return a.Value == "','"
		}
		return false
	}
	for _, f := range files {
		ast.Inspect(f, func(n ast.Node) bool {
			var body *ast.BlockStmt
			switch l := n.(type) {
			case *ast.RangeStmt:
				body = l.Body
			case *ast.ForStmt:
				body = l.Body
			}
			if body == nil {
				return true
			}
			// a loop-local variable tested against nil at the top level of the loop body
			var optional types.Object
			var nilIf *ast.IfStmt
			for _, st := range body.List {
				ifs, ok := st.(*ast.IfStmt)
				if !ok {
					continue
				}
				be, ok := ast.Unparen(ifs.Cond).(*ast.BinaryExpr)
				if !ok || (be.Op != token.EQL && be.Op != token.NEQ) {
					continue
				}
				id, _ := ast.Unparen(be.X).(*ast.Ident)
				tv, ok := info.Types[be.Y]
				if id == nil || !ok || !tv.IsNil() {
					continue
				}
				o := info.Uses[id]
				if o != nil && o.Pos() > body.Pos() && o.Pos() < body.End() {
					optional, nilIf = o, ifs
				}
			}
			if optional == nil {
				return true
			}
			examined++
			// separator appends at the top level of the body, or under conditions that do not mention the optional element
			var walk func(st ast.Stmt, guarded bool)
			walk = func(st ast.Stmt, guarded bool) {
				switch s := st.(type) {
				case *ast.BlockStmt:
					for _, x := range s.List {
						walk(x, guarded)
					}
				case *ast.IfStmt:
					g := guarded
					if s == nilIf {
						be := ast.Unparen(s.Cond).(*ast.BinaryExpr)
						// the branch where the element is present
						if be.Op == token.NEQ {
							walk(s.Body, true)
							if s.Else != nil {
								walk(s.Else, guarded)
							}
						} else {
							walk(s.Body, guarded)
							if s.Else != nil {
								walk(s.Else, true)
							}
						}
						return
					}
					walk(s.Body, g)
					if s.Else != nil {
						walk(s.Else, g)
					}
				case *ast.AssignStmt:
					for _, r := range s.Rhs {
						if isSep(r) && !guarded {
							sites = append(sites, synSite{pos: s.Pos(), file: f, key: enclosingFuncName(f, s.Pos()) + ":separator-before-absent-member",
								msg: "the separator is written without knowing that the element it precedes is present (the loop skips absent elements): when no later element exists the container text ends with a separator, which is not valid JSON"})
						}
					}
				}
			}
			walk(body, false)
			return true
		})
	}
	return
}

const fixtureSeparator = `package fixture

type node struct{ key string }

func emit(buf []byte, cols []string, members []*node, comma []byte) []byte {
	prev := false
	for _, k := range cols {
		var m *node
		for _, mm := range members {
			if mm.key == k {
				m = mm
			}
		}
		if prev {
			buf = append(buf, comma...)
		}
		if m == nil {
			prev = false
			buf = append(buf, ' ')
		} else {
			prev = true
			buf = append(buf, k...)
		}
	}
	return buf
}
`

func ruleSeparator(prog *Program, rep *Report) {
	rep.Rules = append(rep.Rules, "W-sep: in a writer loop over optional elements (the loop body tests a loop-local element against nil) every append of the separator is control dependent on the element being present: a separator written before an absent element is a trailing or doubled separator")
	runSynRule(prog, rep, "W-sep", []string{"pretty", "oj"}, matchSeparatorBeforeAbsent, fixtureSeparator, 1, 1)
}

// ---------------------------------------------------------------- K-nilelem

// matchUnguardedElem: `v = v.Elem()` on a reflect.Value selected by
// v.Kind() == reflect.Ptr (or Interface) with no v.IsNil() test on the way: for a
// nil pointer Elem() is the zero Value and the next Interface()/Field() call
// panics (the encoders turn that into an empty result or an error instead of null).
func matchUnguardedElem(files []*ast.File, info *types.Info) (sites []synSite, examined int) {
	isReflectValue := func(e ast.Expr) bool {
		t := info.TypeOf(e)
		return t != nil && t.String() == "reflect.Value"
	}
	mentions := func(n ast.Node, recv string, method string) bool {
		found := false
		ast.Inspect(n, func(k ast.Node) bool {
			c, ok := k.(*ast.CallExpr)
			if !ok {
				return true
			}
			if sel, ok := c.Fun.(*ast.SelectorExpr); ok && sel.Sel.Name == method && types.ExprString(sel.X) == recv {
				found = true
			}
			return true
		})
		return found
	}
	for _, f := range files {
		var stack []ast.Node
		ast.Inspect(f, func(n ast.Node) bool {
			if n == nil {
				stack = stack[:len(stack)-1]
				return true
			}
			stack = append(stack, n)
			as, ok := n.(*ast.AssignStmt)
			if !ok || len(as.Lhs) != 1 || len(as.Rhs) != 1 {
				return true
			}
			c, ok := ast.Unparen(as.Rhs[0]).(*ast.CallExpr)
			if !ok || len(c.Args) != 0 {
				return true
			}
			sel, ok := c.Fun.(*ast.SelectorExpr)
			if !ok || sel.Sel.Name != "Elem" || !isReflectValue(sel.X) {
				return true
			}
			recv := types.ExprString(sel.X)
			if types.ExprString(as.Lhs[0]) != recv {
				return true
			}
			// only the form selected by a Kind() test in an enclosing if
			kindIf := false
			nilSeen := false
			isNilCall := func(e ast.Expr) bool {
				c, ok := ast.Unparen(e).(*ast.CallExpr)
				if !ok {
					return false
				}
				sel, ok := c.Fun.(*ast.SelectorExpr)
				return ok && sel.Sel.Name == "IsNil" && types.ExprString(sel.X) == recv
			}
			var conjuncts func(e ast.Expr) []ast.Expr
			conjuncts = func(e ast.Expr) []ast.Expr {
				if be, ok := ast.Unparen(e).(*ast.BinaryExpr); ok && be.Op == token.LAND {
					return append(conjuncts(be.X), conjuncts(be.Y)...)
				}
				return []ast.Expr{e}
			}
			var disjuncts func(e ast.Expr) []ast.Expr
			disjuncts = func(e ast.Expr) []ast.Expr {
				if be, ok := ast.Unparen(e).(*ast.BinaryExpr); ok && be.Op == token.LOR {
					return append(disjuncts(be.X), disjuncts(be.Y)...)
				}
				return []ast.Expr{e}
			}
			leaves := func(b *ast.BlockStmt) bool {
				if b == nil || len(b.List) == 0 {
					return false
				}
				switch l := b.List[len(b.List)-1].(type) {
				case *ast.ReturnStmt, *ast.BranchStmt:
					return true
				case *ast.ExprStmt:
					if c, ok := l.X.(*ast.CallExpr); ok {
						if id, ok := c.Fun.(*ast.Ident); ok && id.Name == "panic" {
							return true
						}
					}
				}
				return false
			}
			var child ast.Node = as
			for i := len(stack) - 2; i >= 0; i-- {
				switch s := stack[i].(type) {
				case *ast.IfStmt:
					if mentions(s.Cond, recv, "Kind") {
						kindIf = true
					}
					if child == ast.Node(s.Body) {
						// then-branch: a conjunct !v.IsNil()
						for _, c := range conjuncts(s.Cond) {
							if u, ok := ast.Unparen(c).(*ast.UnaryExpr); ok && u.Op == token.NOT && isNilCall(u.X) {
								nilSeen = true
							}
						}
					} else if s.Else != nil && child == s.Else {
						// else-branch of a condition that is true whenever v is nil
						for _, d := range disjuncts(s.Cond) {
							if isNilCall(d) {
								nilSeen = true
							}
						}
					}
				case *ast.BlockStmt:
					// an earlier statement of the block leaves whenever v is nil
					for _, st := range s.List {
						if st.Pos() >= as.Pos() {
							break
						}
						if ifs, ok := st.(*ast.IfStmt); ok && leaves(ifs.Body) {
							for _, d := range disjuncts(ifs.Cond) {
								if isNilCall(d) {
									nilSeen = true
								}
							}
						}
					}
				case *ast.FuncDecl:
					if s.Recv != nil && strings.Contains(types.ExprString(s.Recv.List[0].Type), "Recomposer") {
						kindIf = false // decoding side: the target pointer is allocated by the caller
						i = -1
						continue
					}
					i = -1
				case *ast.FuncLit:
					i = -1
				}
				if i >= 0 {
					child = stack[i]
				}
			}
			if !kindIf {
				return true
			}
			examined++
			if !nilSeen {
				sites = append(sites, synSite{pos: as.Pos(), file: f, key: enclosingFuncName(f, as.Pos()) + ":elem-of-nil:" + recv,
					msg: fmt.Sprintf("%s = %s.Elem() is selected by the kind test only: for a nil pointer the result is the zero reflect.Value and the following Interface()/field access panics - a nil pointer must encode as null", recv, recv)})
			}
			return true
		})
	}
	return
}

const fixtureUnguardedElem = `package fixture

import "reflect"

func walk(rv reflect.Value) any {
	for j := 0; j < rv.Len(); j++ {
		rm := rv.Index(j)
		if rm.Kind() == reflect.Ptr {
			rm = rm.Elem()
		}
		_ = rm.Interface()
	}
	return nil
}

func fine(rv reflect.Value) any {
	for j := 0; j < rv.Len(); j++ {
		rm := rv.Index(j)
		if rm.Kind() == reflect.Ptr && !rm.IsNil() {
			rm = rm.Elem()
		}
		if rm.Kind() == reflect.Ptr {
			if rm.IsNil() {
				continue
			}
			rm = rm.Elem()
		}
	}
	return nil
}
`

func ruleUnguardedElem(prog *Program, rep *Report, rels ...string) {
	rep.Rules = append(rep.Rules, "K-nilelem: in the encoders a reflect.Value is replaced by its Elem() under a Kind() test only where an IsNil() test of the same value guards the way (enclosing condition, or an earlier statement of the block): a nil pointer inside a slice, map or field encodes as null and never reaches Interface() as the zero Value")
	runSynRule(prog, rep, "K-nilelem", rels, matchUnguardedElem, fixtureUnguardedElem, 1, 4)
}

// ---------------------------------------------------------------- K-bytes

// ruleBytesAs: the reflective slice writers of oj and sen must treat a byte
// slice like the direct []byte case (BytesAs option); otherwise a []byte struct
// field is an array of numbers in oj/sen and a string in pretty/alt.
func ruleBytesAs(prog *Program, rep *Report) {
	rep.Rules = append(rep.Rules, "K-bytes: every method of oj.Writer and sen.Writer that writes the elements of a reflect.Value slice (a loop over rv.Index(i)) first tests for the byte element kind (reflect.Uint8): a []byte reached by reflection follows the BytesAs option like a []byte inside a []any, as pretty and alt.Decompose do")
	n := 0
	for _, rel := range []string{"oj", "sen"} {
		pk := prog.Pkg(rel)
		if pk == nil {
			rep.Errorf("K-bytes: package %s not loaded", rel)
			continue
		}
		info := pk.TypesInfo
		for _, f := range pk.Syntax {
			for _, d := range f.Decls {
				fd, ok := d.(*ast.FuncDecl)
				if !ok || fd.Body == nil || fd.Recv == nil || strings.ReplaceAll(types.ExprString(fd.Recv.List[0].Type), "*", "") != "Writer" {
					continue
				}
				// a reflect.Value parameter indexed in a loop
				var param types.Object
				for _, fl := range fd.Type.Params.List {
					for _, nm := range fl.Names {
						if o := info.Defs[nm]; o != nil && o.Type().String() == "reflect.Value" {
							param = o
						}
					}
				}
				if param == nil {
					continue
				}
				indexes, uint8Test := false, false
				ast.Inspect(fd.Body, func(k ast.Node) bool {
					switch x := k.(type) {
					case *ast.CallExpr:
						if sel, ok := x.Fun.(*ast.SelectorExpr); ok && sel.Sel.Name == "Index" {
							if id, ok := sel.X.(*ast.Ident); ok && info.Uses[id] == param {
								indexes = true
							}
						}
					case *ast.SelectorExpr:
						if x.Sel.Name == "Uint8" {
							if id, ok := x.X.(*ast.Ident); ok {
								if pn, ok := info.Uses[id].(*types.PkgName); ok && pn.Imported().Path() == "reflect" {
									uint8Test = true
								}
							}
						}
					}
					return true
				})
				if !indexes {
					continue
				}
				n++
				key := rel + ".Writer." + fd.Name.Name + ":bytes"
				if uint8Test {
					rep.Discharge("K-bytes", key, prog.Pos(fd.Pos()), "tests for the byte element kind")
				} else {
					rep.Violate(Finding{Rule: "K-bytes", Key: key, Pos: prog.Pos(fd.Pos()), Msg: fmt.Sprintf("%s.Writer.%s writes the elements of a reflected slice one by one without testing for bytes: a []byte field, map value or typed-slice element ignores the BytesAs option here while pretty and alt.Decompose honour it", rel, fd.Name.Name)})
				}
			}
		}
	}
	rep.Eval(n)
	if n < 4 {
		rep.Errorf("K-bytes examined %d reflective slice writers (floor 4): anchors did not resolve", n)
	}
}

// ---------------------------------------------------------------- B-idxle

// matchIndexLE: an index is admitted by `i <= LEN` (or `LEN >= i`) and then used
// to index the same container: the valid indexes end at LEN-1.
func matchIndexLE(files []*ast.File, info *types.Info) (sites []synSite, examined int) {
	// LEN expressions: len(X), X.Len(), X.Size(), or a local assigned from one of those (then X is remembered)
	lenOf := func(e ast.Expr, defs map[types.Object]string) string {
		switch x := ast.Unparen(e).(type) {
		case *ast.CallExpr:
			if id, ok := x.Fun.(*ast.Ident); ok && id.Name == "len" && len(x.Args) == 1 {
				return types.ExprString(x.Args[0])
			}
			if sel, ok := x.Fun.(*ast.SelectorExpr); ok && len(x.Args) == 0 && (sel.Sel.Name == "Len" || sel.Sel.Name == "Size") {
				return types.ExprString(sel.X)
			}
		case *ast.Ident:
			if o := info.Uses[x]; o != nil {
				return defs[o]
			}
		}
		return ""
	}
	for _, f := range files {
		for _, d := range f.Decls {
			fd, ok := d.(*ast.FuncDecl)
			if !ok || fd.Body == nil {
				continue
			}
			defs := map[types.Object]string{}
			ast.Inspect(fd.Body, func(n ast.Node) bool {
				as, ok := n.(*ast.AssignStmt)
				if !ok || len(as.Lhs) != 1 || len(as.Rhs) != 1 {
					return true
				}
				if id, ok := as.Lhs[0].(*ast.Ident); ok {
					if c := lenOf(as.Rhs[0], map[types.Object]string{}); c != "" {
						o := info.Defs[id]
						if o == nil {
							o = info.Uses[id]
						}
						if o != nil {
							defs[o] = c
						}
					}
				}
				return true
			})
			ast.Inspect(fd.Body, func(n ast.Node) bool {
				ifs, ok := n.(*ast.IfStmt)
				if !ok {
					return true
				}
				var walk func(e ast.Expr)
				walk = func(e ast.Expr) {
					be, ok := ast.Unparen(e).(*ast.BinaryExpr)
					if !ok {
						return
					}
					if be.Op == token.LAND {
						walk(be.X)
						walk(be.Y)
						return
					}
					var idx ast.Expr
					cont := ""
					switch be.Op {
					case token.LEQ: // i <= LEN
						cont, idx = lenOf(be.Y, defs), be.X
					case token.GEQ: // LEN >= i
						cont, idx = lenOf(be.X, defs), be.Y
					case token.LSS, token.GTR:
						if lenOf(be.Y, defs) != "" || lenOf(be.X, defs) != "" {
							examined++
						}
						return
					default:
						return
					}
					if cont == "" {
						return
					}
					examined++
					is := types.ExprString(idx)
					// the body indexes cont with idx
					used := false
					ast.Inspect(ifs.Body, func(k ast.Node) bool {
						switch x := k.(type) {
						case *ast.IndexExpr:
							if types.ExprString(x.X) == cont && types.ExprString(x.Index) == is {
								used = true
							}
						case *ast.CallExpr:
							if sel, ok := x.Fun.(*ast.SelectorExpr); ok && len(x.Args) >= 1 && types.ExprString(sel.X) == cont && types.ExprString(x.Args[0]) == is {
								switch sel.Sel.Name {
								case "Index", "ValueAtIndex", "SetValueAtIndex":
									used = true
								}
							}
						}
						return true
					})
					if used {
						sites = append(sites, synSite{pos: be.Pos(), file: f, key: enclosingFuncName(f, be.Pos()) + ":index-le:" + is,
							msg: fmt.Sprintf("%s is admitted by %s and then used to index %s: the last valid index is one less than the length (index == length panics or writes past the end)", is, types.ExprString(be), cont)})
					}
				}
				walk(ifs.Cond)
				return true
			})
		}
	}
	return
}

const fixtureIndexLE = `package fixture

import "reflect"

func setNth(rv reflect.Value, i int, v reflect.Value) {
	size := rv.Len()
	if i < 0 {
		i = size + i
	}
	if 0 <= i && i <= size {
		rv.Index(i).Set(v)
	}
}

func fine(a []int, i int) int {
	if 0 <= i && i < len(a) {
		return a[i]
	}
	return 0
}
`

func ruleIndexLE(prog *Program, rep *Report, rels ...string) {
	rep.Rules = append(rep.Rules, "B-idxle: no index that was admitted by `i <= length` (length = len(C), C.Len(), C.Size() or a local holding one of them) is used to index C in the guarded block")
	runSynRule(prog, rep, "B-idxle", rels, matchIndexLE, fixtureIndexLE, 1, 20)
}

// ---------------------------------------------------------------- K-unsafekind

// ruleUnsafeKind: the field accessors are bound to a reflect.Kind where the field
// plan is built (`case reflect.Uint16: fi.Append = uint16AppendFuncs[fx]`, the
// array listing the accessor functions). Every load through unsafe.Pointer in a
// function bound to kind K must be a load of the Go type of that kind: a load
// through another type reads the bytes of the field as the wrong number (uint16
// 50051 as int16 -15485). The rule follows the binding, not file or function names.
func ruleUnsafeKind(prog *Program, rep *Report) {
	rep.Rules = append(rep.Rules, "K-unsafekind: for every accessor function listed in an array that the field-plan builder selects under `case reflect.<Kind>` (oj, sen, alt), each load *(*T)(unsafe.Pointer(..)) in the function has T of exactly that kind, and the function formats the value with the strconv function of the kind's signedness (AppendInt / FormatInt for Int kinds, AppendUint / FormatUint for Uint kinds)")
	want := map[string]types.BasicKind{"Bool": types.Bool, "Int": types.Int, "Int8": types.Int8, "Int16": types.Int16, "Int32": types.Int32, "Int64": types.Int64,
		"Uint": types.Uint, "Uint8": types.Uint8, "Uint16": types.Uint16, "Uint32": types.Uint32, "Uint64": types.Uint64, "Float32": types.Float32, "Float64": types.Float64, "String": types.String}
	funcs := 0
	for _, rel := range []string{"oj", "sen", "alt"} {
		pk := prog.Pkg(rel)
		if pk == nil {
			rep.Errorf("K-unsafekind: package %s not loaded", rel)
			continue
		}
		info := pk.TypesInfo
		// package-level arrays of functions
		arrays := map[types.Object][]*types.Func{}
		for _, f := range pk.Syntax {
			for _, d := range f.Decls {
				gd, ok := d.(*ast.GenDecl)
				if !ok || gd.Tok != token.VAR {
					continue
				}
				for _, sp := range gd.Specs {
					vs := sp.(*ast.ValueSpec)
					for vi, nm := range vs.Names {
						if vi >= len(vs.Values) {
							continue
						}
						cl, ok := vs.Values[vi].(*ast.CompositeLit)
						if !ok {
							continue
						}
						var fns []*types.Func
						for _, el := range cl.Elts {
							if kv, ok := el.(*ast.KeyValueExpr); ok {
								el = kv.Value
							}
							if id, ok := el.(*ast.Ident); ok {
								if fn, ok := info.Uses[id].(*types.Func); ok {
									fns = append(fns, fn)
								}
							}
						}
						if len(fns) > 0 {
							arrays[info.Defs[nm]] = fns
						}
					}
				}
			}
		}
		// bindings: case reflect.K: ... = ARR[..]
		bound := map[*types.Func]string{}
		for _, f := range pk.Syntax {
			ast.Inspect(f, func(n ast.Node) bool {
				cc, ok := n.(*ast.CaseClause)
				if !ok || len(cc.List) != 1 {
					return true
				}
				sel, ok := cc.List[0].(*ast.SelectorExpr)
				if !ok {
					return true
				}
				if id, ok := sel.X.(*ast.Ident); !ok {
					return true
				} else if pn, ok := info.Uses[id].(*types.PkgName); !ok || pn.Imported().Path() != "reflect" {
					return true
				}
				kind := sel.Sel.Name
				if _, ok := want[kind]; !ok {
					return true
				}
				for _, st := range cc.Body {
					ast.Inspect(st, func(k ast.Node) bool {
						ix, ok := k.(*ast.IndexExpr)
						if !ok {
							return true
						}
						if id, ok := ix.X.(*ast.Ident); ok {
							for _, fn := range arrays[info.Uses[id]] {
								bound[fn] = kind
							}
						}
						return true
					})
				}
				return true
			})
		}
		// loads in the bound functions
		for _, f := range pk.Syntax {
			for _, d := range f.Decls {
				fd, ok := d.(*ast.FuncDecl)
				if !ok || fd.Body == nil {
					continue
				}
				fn, _ := info.Defs[fd.Name].(*types.Func)
				kind, isBound := bound[fn]
				if !isBound {
					continue
				}
				funcs++
				bad := false
				ast.Inspect(fd.Body, func(n ast.Node) bool {
					st, ok := n.(*ast.StarExpr)
					if !ok {
						return true
					}
					c, ok := ast.Unparen(st.X).(*ast.CallExpr)
					if !ok || len(c.Args) != 1 {
						return true
					}
					pt, ok := ast.Unparen(c.Fun).(*ast.StarExpr)
					if !ok {
						return true
					}
					inner, ok := ast.Unparen(c.Args[0]).(*ast.CallExpr)
					if !ok || types.ExprString(inner.Fun) != "unsafe.Pointer" {
						return true
					}
					t := info.TypeOf(pt.X)
					b, isBasic := t.Underlying().(*types.Basic)
					if !isBasic || b.Kind() != want[kind] {
						bad = true
						rep.Violate(Finding{Rule: "K-unsafekind", Key: fmt.Sprintf("%s.%s:load:%s", rel, fd.Name.Name, types.ExprString(pt.X)), Pos: prog.Pos(st.Pos()),
							Msg: fmt.Sprintf("%s.%s is the accessor the field plan uses for reflect.%s fields but loads the field through *(*%s)(unsafe.Pointer(..)): the bytes of the field are read as another type", rel, fd.Name.Name, kind, types.ExprString(pt.X))})
					}
					return true
				})
				// the decimal text of the value is made by the formatter of the kind's signedness
				signed := strings.HasPrefix(kind, "Int")
				unsigned := strings.HasPrefix(kind, "Uint")
				ast.Inspect(fd.Body, func(n ast.Node) bool {
					c, ok := n.(*ast.CallExpr)
					if !ok {
						return true
					}
					sel, ok := c.Fun.(*ast.SelectorExpr)
					if !ok {
						return true
					}
					fn, ok := info.Uses[sel.Sel].(*types.Func)
					if !ok || fn.Pkg() == nil || fn.Pkg().Path() != "strconv" {
						return true
					}
					wrong := (signed && (fn.Name() == "AppendUint" || fn.Name() == "FormatUint")) || (unsigned && (fn.Name() == "AppendInt" || fn.Name() == "FormatInt"))
					if wrong {
						bad = true
						rep.Violate(Finding{Rule: "K-unsafekind", Key: fmt.Sprintf("%s.%s:format:%s", rel, fd.Name.Name, fn.Name()), Pos: prog.Pos(c.Pos()),
							Msg: fmt.Sprintf("%s.%s is the accessor the field plan uses for reflect.%s fields but writes the value with strconv.%s: a negative value is written as a huge unsigned number (or a large unsigned one as negative)", rel, fd.Name.Name, kind, fn.Name())})
					}
					return true
				})
				if !bad {
					rep.Discharge("K-unsafekind", rel+"."+fd.Name.Name, prog.Pos(fd.Pos()), "loads are of kind "+kind)
				}
			}
		}
	}
	rep.Eval(funcs)
	if funcs < 100 {
		rep.Errorf("K-unsafekind examined %d bound accessor functions (floor 100): anchors did not resolve", funcs)
	}
}

// ---------------------------------------------------------------- M-planmut

// matchPlanWrite: a plan function (root, at, args...) assigns to an element of its
// variadic argument slice: the slice belongs to the compiled plan, so executing
// the plan changes it (a second execution, or another iteration of each, sees the
// value computed by the first).
func matchPlanWrite(files []*ast.File, info *types.Info) (sites []synSite, examined int) {
	for _, f := range files {
		for _, d := range f.Decls {
			fd, ok := d.(*ast.FuncDecl)
			if !ok || fd.Body == nil || fd.Type.Params == nil {
				continue
			}
			var variadic types.Object
			for _, fl := range fd.Type.Params.List {
				if _, ok := fl.Type.(*ast.Ellipsis); ok && len(fl.Names) == 1 {
					variadic = info.Defs[fl.Names[0]]
				}
			}
			if variadic == nil {
				continue
			}
			examined++
			ast.Inspect(fd.Body, func(n ast.Node) bool {
				as, ok := n.(*ast.AssignStmt)
				if !ok {
					return true
				}
				for _, l := range as.Lhs {
					ix, ok := ast.Unparen(l).(*ast.IndexExpr)
					if !ok {
						continue
					}
					if id, ok := ast.Unparen(ix.X).(*ast.Ident); ok && info.Uses[id] == variadic {
						sites = append(sites, synSite{pos: as.Pos(), file: f, key: enclosingFuncName(f, as.Pos()) + ":writes-args",
							msg: fmt.Sprintf("%s assigns to an element of its variadic argument slice: the slice is the compiled plan's own argument list, so running the plan rewrites the plan", fd.Name.Name)})
					}
				}
				return true
			})
		}
	}
	return
}

const fixturePlanWrite = `package fixture

func get(root map[string]any, at any, args ...any) any {
	if s, ok := args[0].(string); ok {
		args[0] = len(s)
	}
	return args[0]
}
`

func rulePlanWrite(prog *Program, rep *Report) {
	rep.Rules = append(rep.Rules, "M-planmut: no function of package asm assigns to an element of its variadic argument slice (plan functions receive the plan's own argument list): executing a plan does not change the plan")
	runSynRule(prog, rep, "M-planmut", []string{"asm"}, matchPlanWrite, fixturePlanWrite, 1, 20)
}

// ---------------------------------------------------------------- K-parsebits

// matchParseFloatBits: strconv.ParseFloat(s, 32) rounds to float32 precision. It is
// only right where the target is known to be a float32: the enclosing case clause
// lists reflect.Float32 alone, or the result is converted with float32(...).
func matchParseFloatBits(files []*ast.File, info *types.Info) (sites []synSite, examined int) {
	for _, f := range files {
		var stack []ast.Node
		ast.Inspect(f, func(n ast.Node) bool {
			if n == nil {
				stack = stack[:len(stack)-1]
				return true
			}
			stack = append(stack, n)
			c, ok := n.(*ast.CallExpr)
			if !ok || len(c.Args) != 2 {
				return true
			}
			sel, ok := c.Fun.(*ast.SelectorExpr)
			if !ok || sel.Sel.Name != "ParseFloat" {
				return true
			}
			if id, ok := sel.X.(*ast.Ident); !ok {
				return true
			} else if pn, ok := info.Uses[id].(*types.PkgName); !ok || pn.Imported().Path() != "strconv" {
				return true
			}
			examined++
			tv, ok := info.Types[c.Args[1]]
			if !ok || tv.Value == nil || tv.Value.String() != "32" {
				return true
			}
			// justified by the enclosing case clause?
			for i := len(stack) - 1; i >= 0; i-- {
				cc, ok := stack[i].(*ast.CaseClause)
				if !ok {
					continue
				}
				only32 := len(cc.List) > 0
				for _, e := range cc.List {
					s := types.ExprString(e)
					if !(strings.HasSuffix(s, "Float32") || s == "float32") {
						only32 = false
					}
				}
				if only32 {
					return true
				}
				break
			}
			sites = append(sites, synSite{pos: c.Pos(), file: f, key: enclosingFuncName(f, c.Pos()) + ":parsefloat32",
				msg: "strconv.ParseFloat(.., 32) is used where the target is not known to be a float32 (the enclosing case also covers float64): a float64 comes back with float32 precision, and large values fail with a range error"})
			return true
		})
	}
	return
}

const fixtureParseFloatBits = `package fixture

import (
	"reflect"
	"strconv"
)

func set(rv reflect.Value, s string) {
	switch rv.Kind() {
	case reflect.Float32, reflect.Float64:
		if f, err := strconv.ParseFloat(s, 32); err == nil {
			rv.SetFloat(f)
		}
	}
}

func set32(rv reflect.Value, s string) {
	switch rv.Kind() {
	case reflect.Float32:
		if f, err := strconv.ParseFloat(s, 32); err == nil {
			rv.SetFloat(f)
		}
	}
}
`

func ruleParseFloatBits(prog *Program, rep *Report, rels ...string) {
	rep.Rules = append(rep.Rules, "K-parsebits: strconv.ParseFloat is called with bit size 32 only where the enclosing case clause is for float32 alone")
	runSynRule(prog, rep, "K-parsebits", rels, matchParseFloatBits, fixtureParseFloatBits, 1, 2)
}

// ---------------------------------------------------------------- M-pairwise

// matchPairwiseLookup: inside `for k := range A` the other object is indexed with
// the same key in the one-result form (B[k] with interface values): a key missing
// from B reads as a null member, so {a:1 c:null} and {a:1 b:2} compare equal.
func matchPairwiseLookup(files []*ast.File, info *types.Info) (sites []synSite, examined int) {
	for _, f := range files {
		ast.Inspect(f, func(n ast.Node) bool {
			rs, ok := n.(*ast.RangeStmt)
			if !ok || rs.Key == nil {
				return true
			}
			kid, ok := rs.Key.(*ast.Ident)
			if !ok || kid.Name == "_" {
				return true
			}
			kobj := info.Defs[kid]
			if kobj == nil {
				kobj = info.Uses[kid]
			}
			at := info.TypeOf(rs.X)
			if at == nil {
				return true
			}
			if _, isMap := at.Underlying().(*types.Map); !isMap {
				return true
			}
			rangeOver := types.ExprString(rs.X)
			var stack []ast.Node
			ast.Inspect(rs.Body, func(k ast.Node) bool {
				if k == nil {
					stack = stack[:len(stack)-1]
					return true
				}
				stack = append(stack, k)
				ix, ok := k.(*ast.IndexExpr)
				if !ok {
					return true
				}
				id, ok := ast.Unparen(ix.Index).(*ast.Ident)
				if !ok || info.Uses[id] != kobj || types.ExprString(ix.X) == rangeOver {
					return true
				}
				mt := info.TypeOf(ix.X)
				if mt == nil {
					return true
				}
				m, isMap := mt.Underlying().(*types.Map)
				if !isMap {
					return true
				}
				if _, isIface := m.Elem().Underlying().(*types.Interface); !isIface {
					return true
				}
				examined++
				// two-result form or a store?
				if len(stack) >= 2 {
					switch p := stack[len(stack)-2].(type) {
					case *ast.AssignStmt:
						for _, l := range p.Lhs {
							if l == ast.Expr(ix) {
								return true // B[k] = ...
							}
						}
						if len(p.Lhs) == 2 && len(p.Rhs) == 1 && p.Rhs[0] == ast.Expr(ix) {
							if b, ok := p.Lhs[1].(*ast.Ident); !ok || b.Name != "_" {
								return true // v, has := B[k]
							}
						}
					case *ast.ValueSpec:
						if len(p.Names) == 2 {
							return true
						}
					}
				}
				sites = append(sites, synSite{pos: ix.Pos(), file: f, key: enclosingFuncName(f, ix.Pos()) + ":pairwise-lookup:" + types.ExprString(ix),
					msg: fmt.Sprintf("while ranging over %s the other object is read as %s without the presence flag: a key that %s lacks is taken for a null member", rangeOver, types.ExprString(ix), types.ExprString(ix.X))})
				return true
			})
			return true
		})
	}
	return
}

const fixturePairwise = `package fixture

func equal(t0, t1 map[string]any) bool {
	for k, m0 := range t0 {
		if m0 != t1[k] {
			return false
		}
	}
	return true
}

func fine(t0, t1 map[string]any) bool {
	for k, m0 := range t0 {
		m1, has := t1[k]
		if !has || m0 != m1 {
			return false
		}
	}
	return true
}
`

func rulePairwiseLookup(prog *Program, rep *Report, floor int, rels ...string) {
	rep.Rules = append(rep.Rules, "M-pairwise: inside a loop over the keys of one object, another object with interface values is read at the same key only in the two-result form (or written): member-wise comparison, difference and matching distinguish a missing key from a null member")
	runSynRule(prog, rep, "M-pairwise", rels, matchPairwiseLookup, fixturePairwise, 1, floor)
}

// ---------------------------------------------------------------- B-round

// ruleRoundGuard: when a slice is not the last fragment the evaluators walk it
// backwards from the last selected index, computed as
// start + (end-start-1)/step*step. Go's division truncates toward zero, so for an
// empty range (end <= start) and |step| >= 2 the result is start itself and one
// element is selected. Every occurrence of the idiom must directly follow a test
// that leaves when the range is empty.
func ruleRoundGuard(prog *Program, rep *Report) {
	rep.Rules = append(rep.Rules, "B-round: every assignment `end = start + (end-start-1)/step*step` (resp. `start - (start-end-1)/step*step`) in package jp directly follows `if end <= start { continue }` (resp. `start <= end`) or stands inside `if start < end`: an empty stepped slice in the middle of a path selects nothing, as it does when it is the last fragment")
	pk := prog.Pkg("jp")
	if pk == nil {
		rep.Errorf("B-round: package jp not loaded")
		return
	}
	n := 0
	norm := func(e ast.Expr) string { return strings.ReplaceAll(types.ExprString(e), " ", "") }
	for _, f := range pk.Syntax {
		ast.Inspect(f, func(k ast.Node) bool {
			var list []ast.Stmt
			switch b := k.(type) {
			case *ast.BlockStmt:
				list = b.List
			case *ast.CaseClause:
				list = b.Body
			default:
				return true
			}
			for i, st := range list {
				as, ok := st.(*ast.AssignStmt)
				if !ok || len(as.Lhs) != 1 || len(as.Rhs) != 1 {
					continue
				}
				r := norm(as.Rhs[0])
				pos := r == "start+(end-start-1)/step*step"
				neg := r == "start-(start-end-1)/step*step"
				if norm(as.Lhs[0]) != "end" || (!pos && !neg) {
					continue
				}
				n++
				key := fmt.Sprintf("jp.%s:round@%d", enclosingFuncName(f, as.Pos()), n)
				guarded := false
				if i > 0 {
					if ifs, ok := list[i-1].(*ast.IfStmt); ok && ifs.Else == nil && len(ifs.Body.List) > 0 {
						c := norm(ifs.Cond)
						okCond := (pos && (c == "end<=start" || c == "start>=end")) || (neg && (c == "start<=end" || c == "end>=start"))
						leaves := false
						switch l := ifs.Body.List[len(ifs.Body.List)-1].(type) {
						case *ast.BranchStmt:
							leaves = l.Tok == token.CONTINUE || l.Tok == token.BREAK
						case *ast.ReturnStmt:
							leaves = true
						}
						guarded = okCond && leaves
					}
				}
				if guarded {
					rep.Discharge("B-round", key, prog.Pos(as.Pos()), "follows the empty-range test")
				} else {
					rep.Violate(Finding{Rule: "B-round", Key: fmt.Sprintf("jp.%s:round:unguarded:%s", enclosingFuncName(f, as.Pos()), prog.Pos(as.Pos())), Pos: prog.Pos(as.Pos()),
						Msg: "the last selected index of a stepped slice is computed with a truncating division without first leaving on an empty range: for end <= start and a step of 2 or more the element at start is selected ($[3:3:2].x returns an element, $[3:3:2] none)"})
				}
			}
			return true
		})
	}
	rep.Eval(n)
	if n < 20 {
		rep.Errorf("B-round examined %d rounding sites (floor 20): anchors did not resolve", n)
	}
}

// ---------------------------------------------------------------- K-embednil

// ruleEmbeddedNil: the fields promoted from an embedded *pointer* are read by the
// reflective accessors through reflect.Value.FieldByIndex(fi.index), which panics
// when the index path passes through a nil pointer. Every loop of a struct writer
// that runs the accessors of a field plan (`for _, fi := range fields` calling
// through a function-valued field of fi) must first test
// rv.FieldByIndexErr(fi.index) and skip the field on error - unless the package
// has no panicking FieldByIndex read of a plan index at all.
func ruleEmbeddedNil(prog *Program, rep *Report) {
	rep.Rules = append(rep.Rules, "K-embednil: in oj, sen and alt every loop over a field plan that calls the plan's accessor functions guards promoted fields with reflect.Value.FieldByIndexErr(fi.index) (continue on error), or no accessor of the package reads a plan index with the panicking FieldByIndex: a struct whose embedded pointer is nil is encoded without the promoted fields, as encoding/json does, instead of failing")
	loops := 0
	for _, rel := range []string{"oj", "sen", "alt"} {
		pk := prog.Pkg(rel)
		if pk == nil {
			rep.Errorf("K-embednil: package %s not loaded", rel)
			continue
		}
		info := pk.TypesInfo
		isIndexArg := func(c *ast.CallExpr, fiName string) bool {
			if len(c.Args) != 1 {
				return false
			}
			a, ok := ast.Unparen(c.Args[0]).(*ast.SelectorExpr)
			if !ok || a.Sel.Name != "index" {
				return false
			}
			if fiName == "" {
				return true
			}
			id, ok := a.X.(*ast.Ident)
			return ok && id.Name == fiName
		}
		panicking := 0
		for _, f := range pk.Syntax {
			ast.Inspect(f, func(n ast.Node) bool {
				if c, ok := n.(*ast.CallExpr); ok {
					if sel, ok := c.Fun.(*ast.SelectorExpr); ok && sel.Sel.Name == "FieldByIndex" && isIndexArg(c, "") {
						if t := info.TypeOf(sel.X); t != nil && t.String() == "reflect.Value" {
							panicking++
						}
					}
				}
				return true
			})
		}
		rep.Eval(panicking)
		if panicking == 0 {
			rep.Discharge("K-embednil", rel, rel, "no panicking FieldByIndex read of a plan index")
			continue
		}
		for _, f := range pk.Syntax {
			ast.Inspect(f, func(n ast.Node) bool {
				rs, ok := n.(*ast.RangeStmt)
				if !ok || rs.Value == nil {
					return true
				}
				fi, ok := rs.Value.(*ast.Ident)
				if !ok {
					return true
				}
				fiObj := info.Defs[fi]
				// does the body call through a function-valued field of fi?
				calls := false
				guard := false
				ast.Inspect(rs.Body, func(k ast.Node) bool {
					c, ok := k.(*ast.CallExpr)
					if !ok {
						return true
					}
					if sel, ok := c.Fun.(*ast.SelectorExpr); ok {
						if id, ok := sel.X.(*ast.Ident); ok && info.Uses[id] == fiObj && fiObj != nil {
							if _, isSig := info.TypeOf(sel).Underlying().(*types.Signature); isSig {
								if s := info.Selections[sel]; s != nil && s.Kind() == types.FieldVal {
									calls = true
								}
							}
						}
						if sel.Sel.Name == "FieldByIndexErr" && isIndexArg(c, fi.Name) {
							guard = true
						}
					}
					return true
				})
				if !calls {
					return true
				}
				loops++
				key := fmt.Sprintf("%s.%s:plan-loop", rel, enclosingFuncName(f, rs.Pos()))
				if guard {
					rep.Discharge("K-embednil", key, prog.Pos(rs.Pos()), "promoted fields are tested with FieldByIndexErr")
				} else {
					rep.Violate(Finding{Rule: "K-embednil", Key: key + ":unguarded", Pos: prog.Pos(rs.Pos()),
						Msg: fmt.Sprintf("%s runs the accessors of a field plan without testing the index path of promoted fields; %d accessors of the package read it with reflect.Value.FieldByIndex, which panics through a nil embedded pointer: such a struct is not encoded at all (empty result, error or panic)", enclosingFuncName(f, rs.Pos()), panicking)})
				}
				return true
			})
		}
	}
	if loops < 5 {
		rep.Errorf("K-embednil examined %d field-plan loops (floor 5): anchors did not resolve", loops)
	}
}

// ---------------------------------------------------------------- B-slicebound

// ruleSliceBound: a slice selects start (inclusive) to end (exclusive). Inside a
// `case Slice:` clause of package jp, a loop over the selected indexes that
// runs while `i <= end` (or `end <= i` for a negative step) treats the end bound
// as inclusive.
func ruleSliceBound(prog *Program, rep *Report) {
	rep.Rules = append(rep.Rules, "B-slicebound: inside every `case Slice:` clause of package jp the loops over the selected indexes exclude the end bound (`i < end`, `end < i`), as Expr.Get does: the mutators touch exactly the locations Get selects")
	pk := prog.Pkg("jp")
	if pk == nil {
		rep.Errorf("B-slicebound: package jp not loaded")
		return
	}
	cnt := 0
	for _, f := range pk.Syntax {
		ast.Inspect(f, func(k ast.Node) bool {
			cc, ok := k.(*ast.CaseClause)
			if !ok || len(cc.List) != 1 || types.ExprString(cc.List[0]) != "Slice" {
				return true
			}
			cont := ""
			var walk func(n ast.Node)
			walk = func(n ast.Node) {
				ast.Inspect(n, func(q ast.Node) bool {
					switch x := q.(type) {
					case *ast.CaseClause:
						if x != cc && len(x.List) > 0 {
							old := cont
							cont = types.ExprString(x.List[0])
							for _, st := range x.Body {
								walk(st)
							}
							cont = old
							return false
						}
					case *ast.ForStmt:
						if x.Cond == nil {
							return true
						}
						c := strings.ReplaceAll(types.ExprString(x.Cond), " ", "")
						switch c {
						case "i<end", "end<i":
							cnt++
						case "i<=end", "end<=i":
							cnt++
							dir := "+"
							if c == "end<=i" {
								dir = "-"
							}
							if cont == "" {
								cont = "reflect"
							}
							rep.Violate(Finding{Rule: "B-slicebound", Key: fmt.Sprintf("jp.%s:slice-end-inclusive:%s:%s", enclosingFuncName(f, x.Pos()), cont, dir), Pos: prog.Pos(x.Pos()),
								Msg: fmt.Sprintf("%s walks a slice of a %s while %s: the element at the end bound is included, Expr.Get excludes it ($[1:3] selects 1 and 2, Remove and Modify also change 3)", enclosingFuncName(f, x.Pos()), cont, types.ExprString(x.Cond))})
						}
					}
					return true
				})
			}
			for _, st := range cc.Body {
				walk(st)
			}
			return true
		})
	}
	rep.Eval(cnt)
	if cnt < 12 {
		rep.Errorf("B-slicebound examined %d slice loops (floor 12): anchors did not resolve", cnt)
	}
}

// ---------------------------------------------------------------- B-filterroot

// ruleFilterRoot: a filter may refer to the document root (`$.limit`). The
// script evaluator takes the root as a parameter (evalWithRoot); the root-less
// forms - Script.Match(v), which makes v its own root, and Script.Eval, which
// passes nil - are the public API for stand-alone scripts. An evaluator that
// walks a document and uses a root-less form evaluates `$` against the element
// (or nothing), so it selects other elements than Get does for the same path.
// inScope(function key) limits the report to the functions a property is about.
func ruleFilterRoot(prog *Program, rep *Report, inScope func(fn string) bool) {
	rep.Rules = append(rep.Rules, "B-filterroot: inside package jp's evaluators a filter script is evaluated with the document root: no call of the root-less forms Script.Match / Script.Eval (also through the embedding Filter) and no evalWithRoot(..., nil) outside Script.Eval itself; otherwise `$` inside a filter denotes the element or nothing and the evaluator disagrees with Get")
	pk := prog.Pkg("jp")
	if pk == nil {
		rep.Errorf("B-filterroot: package jp not loaded")
		return
	}
	info := pk.TypesInfo
	scriptTN, _ := pk.Types.Scope().Lookup("Script").(*types.TypeName)
	if scriptTN == nil {
		rep.Errorf("B-filterroot: type jp.Script not found")
		return
	}
	isScriptMethod := func(o types.Object, name string) bool {
		fn, ok := o.(*types.Func)
		if !ok || fn.Name() != name {
			return false
		}
		sig := fn.Type().(*types.Signature)
		if sig.Recv() == nil {
			return false
		}
		t := sig.Recv().Type()
		if p, ok := t.(*types.Pointer); ok {
			t = p.Elem()
		}
		n, ok := t.(*types.Named)
		return ok && n.Obj() == scriptTN
	}
	type hit struct {
		pos  token.Pos
		form string
	}
	total, rooted := 0, 0
	for _, f := range pk.Syntax {
		if strings.HasSuffix(prog.Fset.Position(f.Pos()).Filename, "_test.go") {
			continue
		}
		for _, d := range f.Decls {
			fd, ok := d.(*ast.FuncDecl)
			if !ok || fd.Body == nil {
				continue
			}
			fk := funcKey(fd)
			byForm := map[string][]hit{}
			ast.Inspect(fd.Body, func(n ast.Node) bool {
				call, ok := n.(*ast.CallExpr)
				if !ok {
					return true
				}
				sel, ok := call.Fun.(*ast.SelectorExpr)
				if !ok {
					return true
				}
				o := info.Uses[sel.Sel]
				switch {
				case isScriptMethod(o, "Match"):
					byForm["Match"] = append(byForm["Match"], hit{call.Pos(), "Match"})
				case isScriptMethod(o, "Eval"):
					byForm["Eval"] = append(byForm["Eval"], hit{call.Pos(), "Eval"})
				case isScriptMethod(o, "evalWithRoot"), isScriptMethod(o, "matchWithRoot"):
					total++
					if len(call.Args) >= 2 {
						if id, ok := ast.Unparen(call.Args[len(call.Args)-1]).(*ast.Ident); ok && id.Name == "nil" {
							byForm["evalWithRoot(nil)"] = append(byForm["evalWithRoot(nil)"], hit{call.Pos(), "evalWithRoot(.., nil)"})
							return true
						}
					}
					rooted++
				}
				return true
			})
			if fk == "Script.Eval" {
				// the root-less public form itself
				for form := range byForm {
					rep.Discharge("B-filterroot", "jp."+fk+":"+form, prog.Pos(fd.Pos()), "the documented root-less form for stand-alone scripts")
				}
				continue
			}
			var forms []string
			for form := range byForm {
				forms = append(forms, form)
			}
			sort.Strings(forms)
			for _, form := range forms {
				hs := byForm[form]
				total += len(hs)
				if inScope != nil && !inScope(fk) {
					continue
				}
				what := "the element itself as `$`"
				if form != "Match" {
					what = "no root at all"
				}
				rep.Violate(Finding{Rule: "B-filterroot", Key: fmt.Sprintf("jp.%s:rootless-%s", fk, form), Pos: prog.Pos(hs[0].pos),
					Msg: fmt.Sprintf("%s evaluates a filter with %s (%d call(s) of %s, first shown): a filter that refers to `$` selects other elements here than in Get, which passes the document", fk, what, len(hs), hs[0].form)})
			}
		}
	}
	rep.Discharge("B-filterroot", "jp:rooted", "jp", fmt.Sprintf("%d calls of evalWithRoot / matchWithRoot pass a root", rooted))
	rep.Eval(total)
	if rooted < 8 {
		rep.Errorf("B-filterroot found %d rooted evaluations (floor 8): anchors did not resolve", rooted)
	}
}

// ---------------------------------------------------------------- M-forward

// matchContextForward: plan functions receive the evaluation context as their two
// leading parameters (root map[string]any, at any) and hand it on to evalArg,
// evalValue and nested Fn.Eval. `$` paths resolve against root and `@` paths
// against at, so a call that passes root in the at position (or anything but its
// own root in the root position) silently evaluates `@` against the wrong value.
// The one function without an `at` of its own (Plan.Execute, where at starts as
// root) is not matched because it has no such parameter pair.
func matchContextForward(files []*ast.File, info *types.Info) (sites []synSite, examined int) {
	isRootT := func(t types.Type) bool {
		m, ok := t.Underlying().(*types.Map)
		if !ok {
			return false
		}
		k, ok := m.Key().Underlying().(*types.Basic)
		_, isAny := m.Elem().Underlying().(*types.Interface)
		return ok && k.Kind() == types.String && isAny
	}
	isAnyT := func(t types.Type) bool {
		i, ok := t.Underlying().(*types.Interface)
		return ok && i.NumMethods() == 0
	}
	for _, f := range files {
		for _, d := range f.Decls {
			fd, ok := d.(*ast.FuncDecl)
			if !ok || fd.Body == nil || fd.Type.Params == nil {
				continue
			}
			var params []types.Object
			for _, fl := range fd.Type.Params.List {
				for _, n := range fl.Names {
					params = append(params, info.Defs[n])
				}
			}
			if len(params) < 2 || params[0] == nil || params[1] == nil || !isRootT(params[0].Type()) || !isAnyT(params[1].Type()) {
				continue
			}
			rootP, atP := params[0], params[1]
			ast.Inspect(fd.Body, func(n ast.Node) bool {
				call, ok := n.(*ast.CallExpr)
				if !ok || len(call.Args) < 2 {
					return true
				}
				sig, ok := info.TypeOf(call.Fun).(*types.Signature)
				if !ok || sig.Params().Len() < 2 || !isRootT(sig.Params().At(0).Type()) || !isAnyT(sig.Params().At(1).Type()) {
					return true
				}
				examined++
				a0, a1 := useObj(info, call.Args[0]), useObj(info, call.Args[1])
				fn := enclosingFuncName(f, call.Pos())
				switch {
				case a0 != rootP:
					sites = append(sites, synSite{pos: call.Pos(), file: f, key: fn + ":root-not-forwarded",
						msg: fmt.Sprintf("%s calls %s with %s in the root position instead of its own root parameter: `$` paths below resolve against another document", fn, types.ExprString(call.Fun), types.ExprString(call.Args[0]))})
				case a1 == rootP && atP != rootP:
					sites = append(sites, synSite{pos: call.Pos(), file: f, key: fn + ":root-passed-as-at",
						msg: fmt.Sprintf("%s calls %s with root in the position of the local value (at): `@` paths below resolve against the document root instead of the current value", fn, types.ExprString(call.Fun))})
				}
				return true
			})
		}
	}
	return
}

const fixtureContextForward = `package fixture

func evalArg(root map[string]any, at any, arg any) any { return arg }

func good(root map[string]any, at any, args ...any) any {
	v := evalArg(root, at, args[0])
	return evalArg(root, v, args[1]) // a new local value is fine
}

func bad(root map[string]any, at any, args ...any) any {
	return evalArg(root, root, args[0])
}

func bad2(root map[string]any, at any, args ...any) any {
	other := map[string]any{}
	return evalArg(other, at, args[0])
}
`

func ruleContextForward(prog *Program, rep *Report) {
	rep.Rules = append(rep.Rules, "M-forward: every function of package asm that receives the evaluation context (root map[string]any, at any) hands it on unchanged in position: calls whose callee takes the same leading pair get the function's own root first and never root in the at position")
	runSynRule(prog, rep, "M-forward", []string{"asm"}, matchContextForward, fixtureContextForward, 2, 60)
}

// ---------------------------------------------------------------- F-order

// matchOperandOrder: a function comparing two operands of the same type (v0, v1 /
// fingerprint, target) recurses on their parts. The roles are not symmetric
// (Match: every member of the fingerprint must be in the target; diff reports
// paths of the first operand), so a recursive call must pass something derived
// from the first parameter first and from the second parameter second. Derivation
// is followed through assignments, comma-ok forms, type-switch bindings and
// range statements. Only an exact swap (first argument derived from the second
// parameter only, and vice versa) is reported.
func matchOperandOrder(files []*ast.File, info *types.Info) (sites []synSite, examined int) {
	for _, f := range files {
		for _, d := range f.Decls {
			fd, ok := d.(*ast.FuncDecl)
			if !ok || fd.Body == nil || fd.Type.Params == nil {
				continue
			}
			var params []types.Object
			for _, fl := range fd.Type.Params.List {
				for _, n := range fl.Names {
					params = append(params, info.Defs[n])
				}
			}
			if len(params) < 2 || params[0] == nil || params[1] == nil || !types.Identical(params[0].Type(), params[1].Type()) {
				continue
			}
			self := info.Defs[fd.Name]
			derive := map[types.Object]uint8{params[0]: 1, params[1]: 2}
			exprDer := func(e ast.Expr) uint8 {
				var m uint8
				ast.Inspect(e, func(n ast.Node) bool {
					if id, ok := n.(*ast.Ident); ok {
						m |= derive[info.Uses[id]]
					}
					return true
				})
				return m
			}
			for changed := true; changed; {
				changed = false
				mark := func(o types.Object, m uint8) {
					if o != nil && m != 0 && derive[o]|m != derive[o] {
						derive[o] |= m
						changed = true
					}
				}
				ast.Inspect(fd.Body, func(n ast.Node) bool {
					switch s := n.(type) {
					case *ast.AssignStmt:
						if len(s.Rhs) == 1 {
							m := exprDer(s.Rhs[0])
							for i, l := range s.Lhs {
								if i > 0 && len(s.Lhs) == 2 {
									break // comma-ok flag
								}
								if id, ok := l.(*ast.Ident); ok {
									o := info.Defs[id]
									if o == nil {
										o = info.Uses[id]
									}
									mark(o, m)
								}
							}
						} else if len(s.Lhs) == len(s.Rhs) {
							for i, l := range s.Lhs {
								if id, ok := l.(*ast.Ident); ok {
									o := info.Defs[id]
									if o == nil {
										o = info.Uses[id]
									}
									mark(o, exprDer(s.Rhs[i]))
								}
							}
						}
					case *ast.TypeSwitchStmt:
						var subj ast.Expr
						if a, ok := s.Assign.(*ast.AssignStmt); ok && len(a.Rhs) == 1 {
							if ta, ok := ast.Unparen(a.Rhs[0]).(*ast.TypeAssertExpr); ok {
								subj = ta.X
							}
						}
						if subj != nil {
							m := exprDer(subj)
							for _, cl := range s.Body.List {
								mark(info.Implicits[cl], m)
							}
						}
					case *ast.RangeStmt:
						m := exprDer(s.X)
						for _, e := range []ast.Expr{s.Key, s.Value} {
							if id, ok := e.(*ast.Ident); ok {
								mark(info.Defs[id], m)
							}
						}
					}
					return true
				})
			}
			ast.Inspect(fd.Body, func(n ast.Node) bool {
				call, ok := n.(*ast.CallExpr)
				if !ok || len(call.Args) < 2 {
					return true
				}
				var callee types.Object
				switch fn := ast.Unparen(call.Fun).(type) {
				case *ast.Ident:
					callee = info.Uses[fn]
				case *ast.SelectorExpr:
					callee = info.Uses[fn.Sel]
				}
				if callee == nil || callee != self {
					return true
				}
				examined++
				// range keys index both operands (t1[k]): the container, not the key, tells the side
				side := func(e ast.Expr) uint8 {
					if ix, ok := ast.Unparen(e).(*ast.IndexExpr); ok {
						return exprDer(ix.X)
					}
					return exprDer(e)
				}
				d0, d1 := side(call.Args[0]), side(call.Args[1])
				if d0 == 2 && d1 == 1 {
					name := enclosingFuncName(f, call.Pos())
					sites = append(sites, synSite{pos: call.Pos(), file: f, key: name + ":operands-swapped",
						msg: fmt.Sprintf("%s calls itself with its operands exchanged (%s derives from %s, %s from %s): the roles of the two operands are not symmetric", name, types.ExprString(call.Args[0]), params[1].Name(), types.ExprString(call.Args[1]), params[0].Name())})
				}
				return true
			})
		}
	}
	return
}

const fixtureOperandOrder = `package fixture

type simp interface{ Simplify() any }

func match(fp, target any) bool {
	switch t0 := fp.(type) {
	case []any:
		t1, ok := target.([]any)
		if !ok {
			return false
		}
		for i, v := range t0 {
			if !match(v, t1[i]) {
				return false
			}
		}
		return true
	}
	if s0, _ := fp.(simp); s0 != nil {
		if s1, _ := target.(simp); s1 != nil {
			return match(s1.Simplify(), s0.Simplify())
		}
	}
	return fp == target
}
`

func ruleOperandOrder(prog *Program, rep *Report, rels ...string) {
	rep.Rules = append(rep.Rules, "F-order: a function with two like-typed leading operands that calls itself passes a part of its first operand first and a part of its second operand second (derivation through assignments, comma-ok, type-switch bindings, range): Match and diff are not symmetric in their operands")
	runSynRule(prog, rep, "F-order", rels, matchOperandOrder, fixtureOperandOrder, 1, 6)
}

// ---------------------------------------------------------------- R-cursor

// matchCursorAdvance: an element taken from a receiver's slice field at a receiver's
// cursor field (m = p.maps[p.mi]) is handed out; the cursor has to move past it on
// every path, otherwise the next request hands out the same element again (with the
// Reuse option: two objects of one document become the same map). Accepted: an
// increment of that cursor as a later statement of the block holding the read or of
// one of the enclosing blocks, up to the enclosing case clause / loop body / function.
func matchCursorAdvance(files []*ast.File, info *types.Info) (sites []synSite, examined int) {
	for _, f := range files {
		for _, d := range f.Decls {
			fd, ok := d.(*ast.FuncDecl)
			if !ok || fd.Body == nil || fd.Recv == nil || len(fd.Recv.List) != 1 || len(fd.Recv.List[0].Names) != 1 {
				continue
			}
			recv := info.Defs[fd.Recv.List[0].Names[0]]
			isRecvField := func(e ast.Expr) (string, bool) {
				sel, ok := ast.Unparen(e).(*ast.SelectorExpr)
				if !ok {
					return "", false
				}
				id, ok := sel.X.(*ast.Ident)
				if !ok || info.Uses[id] != recv {
					return "", false
				}
				return sel.Sel.Name, true
			}
			var path []ast.Node
			ast.Inspect(fd.Body, func(n ast.Node) bool {
				if n == nil {
					path = path[:len(path)-1]
					return true
				}
				path = append(path, n)
				as, ok := n.(*ast.AssignStmt)
				if !ok || len(as.Lhs) != 1 || len(as.Rhs) != 1 {
					return true
				}
				ix, ok := ast.Unparen(as.Rhs[0]).(*ast.IndexExpr)
				if !ok {
					return true
				}
				sf, ok1 := isRecvField(ix.X)
				cf, ok2 := isRecvField(ix.Index)
				if !ok1 || !ok2 {
					return true
				}
				if _, isId := as.Lhs[0].(*ast.Ident); !isId {
					return true
				}
				examined++
				// walk outwards
				advanced := false
				child := ast.Node(as)
				for i := len(path) - 2; i >= 0 && !advanced; i-- {
					var list []ast.Stmt
					stop := false
					switch b := path[i].(type) {
					case *ast.BlockStmt:
						list = b.List
						if i > 0 {
							switch path[i-1].(type) {
							case *ast.ForStmt, *ast.RangeStmt, *ast.FuncDecl, *ast.FuncLit:
								stop = true
							}
						}
					case *ast.CaseClause:
						list = b.Body
						stop = true
					default:
						child = path[i]
						continue
					}
					after := false
					for _, st := range list {
						if ast.Node(st) == child {
							after = true
							continue
						}
						if !after {
							continue
						}
						if inc, ok := st.(*ast.IncDecStmt); ok && inc.Tok == token.INC {
							if name, ok := isRecvField(inc.X); ok && name == cf {
								advanced = true
							}
						}
					}
					child = path[i]
					if stop {
						break
					}
				}
				if !advanced {
					name := enclosingFuncName(f, as.Pos())
					sites = append(sites, synSite{pos: as.Pos(), file: f, key: fmt.Sprintf("%s:%s[%s]:cursor-not-advanced", name, sf, cf),
						msg: fmt.Sprintf("%s takes %s[%s] and the cursor %s is not incremented on every path that follows: the same element is handed out again", name, sf, cf, cf)})
				}
				return true
			})
		}
	}
	return
}

const fixtureCursorAdvance = `package fixture

type P struct {
	maps []map[string]any
	mi   int
}

func (p *P) good(reuse bool) (m map[string]any) {
	if reuse {
		if p.mi < len(p.maps) {
			m = p.maps[p.mi]
		} else {
			m = map[string]any{}
			p.maps = append(p.maps, m)
		}
		p.mi++
	}
	return
}

func (p *P) bad(reuse bool) (m map[string]any) {
	if reuse {
		if p.mi < len(p.maps) {
			m = p.maps[p.mi]
		} else {
			m = map[string]any{}
			p.maps = append(p.maps, m)
			p.mi++
		}
	}
	return
}
`

func ruleCursorAdvance(prog *Program, rep *Report) {
	rep.Rules = append(rep.Rules, "R-cursor: where a parser takes an element of one of its slice fields at one of its cursor fields (the recycled maps of the Reuse option: m = p.maps[p.mi]) the cursor is incremented by a later statement of the same or an enclosing block: no element is handed out twice within a document")
	runSynRule(prog, rep, "R-cursor", []string{"oj", "gen"}, matchCursorAdvance, fixtureCursorAdvance, 1, 2)
}

// ---------------------------------------------------------------- K-tableshape

// ruleTableShape: the encoders pick a field accessor from per-kind tables of eight
// functions indexed by option bits (as-string, omit-empty, by-interface):
// int16ValFuncs = [8]valFunc{valInt16, valInt16AsString, ...}. The thirteen tables
// of a package are copies of each other with the kind's name substituted, so
// with the kind removed from every cell's name the tables must read the same,
// and no table may list one function twice (a duplicated line silently drops an
// option for that kind only).
func ruleTableShape(prog *Program, rep *Report, rels ...string) {
	rep.Rules = append(rep.Rules, "K-tableshape: the per-kind accessor tables of a package (arrays of functions of one type and length, named <kind><Suffix>) list no function twice and, with the kind's name removed from each cell's function name, all read the same sequence (majority of the sibling tables): the cell for an option combination holds the function for that combination for every kind")
	type table struct {
		name  string
		cells []string
		pos   token.Pos
	}
	total := 0
	for _, rel := range rels {
		pk := prog.Pkg(rel)
		if pk == nil {
			rep.Errorf("K-tableshape: package %s not loaded", rel)
			continue
		}
		info := pk.TypesInfo
		groups := map[string][]table{}
		for _, f := range pk.Syntax {
			if strings.HasSuffix(prog.Fset.Position(f.Pos()).Filename, "_test.go") {
				continue
			}
			for _, d := range f.Decls {
				gd, ok := d.(*ast.GenDecl)
				if !ok || gd.Tok != token.VAR {
					continue
				}
				for _, sp := range gd.Specs {
					vs, ok := sp.(*ast.ValueSpec)
					if !ok || len(vs.Names) != 1 || len(vs.Values) != 1 {
						continue
					}
					cl, ok := vs.Values[0].(*ast.CompositeLit)
					if !ok {
						continue
					}
					at, ok := info.TypeOf(cl).Underlying().(*types.Array)
					if !ok {
						continue
					}
					if _, isFn := at.Elem().Underlying().(*types.Signature); !isFn {
						continue
					}
					var cells []string
					all := true
					for _, e := range cl.Elts {
						id, ok := e.(*ast.Ident)
						if !ok {
							all = false
							break
						}
						if _, isF := info.Uses[id].(*types.Func); !isF {
							all = false
							break
						}
						cells = append(cells, id.Name)
					}
					if !all || len(cells) < 2 {
						continue
					}
					g := fmt.Sprintf("%s[%d]", types.TypeString(at.Elem(), types.RelativeTo(pk.Types)), at.Len())
					groups[g] = append(groups[g], table{vs.Names[0].Name, cells, vs.Pos()})
				}
			}
		}
		var gnames []string
		for g := range groups {
			gnames = append(gnames, g)
		}
		sort.Strings(gnames)
		for _, g := range gnames {
			tabs := groups[g]
			if len(tabs) < 3 {
				continue
			}
			// common suffix of the table names
			suffix := tabs[0].name
			for _, t := range tabs[1:] {
				for !strings.HasSuffix(t.name, suffix) && suffix != "" {
					suffix = suffix[1:]
				}
			}
			shapes := map[string]int{}
			shapeOf := map[string]string{}
			for _, t := range tabs {
				total += len(t.cells)
				kind := strings.ToLower(strings.TrimSuffix(t.name, suffix))
				var res []string
				seen := map[string]bool{}
				dup := ""
				for _, c := range t.cells {
					if seen[c] {
						dup = c
					}
					seen[c] = true
					lc := strings.ToLower(c)
					if i := strings.Index(lc, kind); i >= 0 && kind != "" {
						lc = lc[:i] + "~" + lc[i+len(kind):]
					}
					res = append(res, lc)
				}
				key := fmt.Sprintf("%s.%s", rel, t.name)
				if dup != "" {
					rep.Violate(Finding{Rule: "K-tableshape", Key: key + ":duplicate:" + dup, Pos: prog.Pos(t.pos), Msg: fmt.Sprintf("table %s lists %s twice: one option combination of this kind is served by the function of another", t.name, dup)})
				}
				sh := strings.Join(res, " ")
				shapes[sh]++
				shapeOf[t.name] = sh
			}
			major, mc := "", 0
			for sh, c := range shapes {
				if c > mc || (c == mc && sh < major) {
					major, mc = sh, c
				}
			}
			for _, t := range tabs {
				key := fmt.Sprintf("%s.%s", rel, t.name)
				if shapeOf[t.name] == major {
					rep.Discharge("K-tableshape", key, prog.Pos(t.pos), fmt.Sprintf("same reading as %d of %d sibling tables", mc, len(tabs)))
					continue
				}
				a, b := strings.Fields(shapeOf[t.name]), strings.Fields(major)
				var diffs []string
				for i := range a {
					if i < len(b) && a[i] != b[i] {
						diffs = append(diffs, fmt.Sprintf("cell %d: %s (siblings: %s)", i, t.cells[i], b[i]))
					}
				}
				rep.Violate(Finding{Rule: "K-tableshape", Key: key + ":shape", Pos: prog.Pos(t.pos), Msg: fmt.Sprintf("table %s does not read like its %d sibling tables: %s", t.name, mc, strings.Join(diffs, "; "))})
			}
		}
	}
	rep.Eval(total)
	if total < 100*len(rels) {
		rep.Errorf("K-tableshape examined %d table cells (floor %d): anchors did not resolve", total, 100*len(rels))
	}
}

// ---------------------------------------------------------------- K-dispatchargs

// matchDispatchArgs: a switch that only chooses which of several like-typed functions
// to call (every clause is one assignment `x = f_i(args...)`, the callees differ,
// their signatures are identical) hands every callee the same arguments. One clause
// with another argument text (a flipped test, another variable) configures that
// variant differently from its siblings.
func matchDispatchArgs(files []*ast.File, info *types.Info) (sites []synSite, examined int) {
	for _, f := range files {
		ast.Inspect(f, func(n ast.Node) bool {
			sw, ok := n.(*ast.SwitchStmt)
			if !ok || len(sw.Body.List) < 2 {
				return true
			}
			type arm struct {
				callee string
				args   string
				sig    string
				lhs    string
				pos    token.Pos
			}
			var arms []arm
			for _, cl := range sw.Body.List {
				cc := cl.(*ast.CaseClause)
				if len(cc.Body) != 1 {
					return true
				}
				as, ok := cc.Body[0].(*ast.AssignStmt)
				if !ok || len(as.Lhs) != 1 || len(as.Rhs) != 1 {
					return true
				}
				call, ok := as.Rhs[0].(*ast.CallExpr)
				if !ok {
					return true
				}
				id, ok := call.Fun.(*ast.Ident)
				if !ok {
					return true
				}
				fn, ok := info.Uses[id].(*types.Func)
				if !ok {
					return true
				}
				var args []string
				for _, a := range call.Args {
					args = append(args, types.ExprString(a))
				}
				arms = append(arms, arm{fn.Name(), strings.Join(args, ", "), fn.Type().String(), types.ExprString(as.Lhs[0]), call.Pos()})
			}
			distinct := map[string]bool{}
			for _, a := range arms {
				distinct[a.callee] = true
				if a.sig != arms[0].sig || a.lhs != arms[0].lhs {
					return true
				}
			}
			if len(distinct) < 2 {
				return true
			}
			examined++
			count := map[string]int{}
			for _, a := range arms {
				count[a.args]++
			}
			major, mc := "", 0
			for k, c := range count {
				if c > mc || (c == mc && k < major) {
					major, mc = k, c
				}
			}
			for _, a := range arms {
				if a.args != major {
					name := enclosingFuncName(f, a.pos)
					sites = append(sites, synSite{pos: a.pos, file: f, key: name + ":" + a.callee + ":arguments-differ",
						msg: fmt.Sprintf("%s calls %s(%s) where the sibling clauses of the same switch pass (%s): this variant is configured differently from the others", name, a.callee, a.args, major)})
				}
			}
			return true
		})
	}
	return
}

const fixtureDispatchArgs = `package fixture

func low(n int, nested bool) []int   { return nil }
func exact(n int, nested bool) []int { return nil }
func tags(n int, nested bool) []int  { return nil }

func build(n int, u byte) (fa []int) {
	switch {
	case u&1 != 0:
		fa = tags(n, u&4 == 0)
	case u&2 != 0:
		fa = exact(n, u&4 != 0)
	default:
		fa = low(n, u&4 == 0)
	}
	return
}
`

func ruleDispatchArgs(prog *Program, rep *Report, rels ...string) {
	rep.Rules = append(rep.Rules, "K-dispatchargs: a switch whose clauses only choose among like-typed functions (each clause one assignment x = f_i(args)) passes the same argument text to every callee: the field-plan builders for tag, exact and lower-case keys are configured alike")
	runSynRule(prog, rep, "K-dispatchargs", rels, matchDispatchArgs, fixtureDispatchArgs, 1, len(rels)) // one buildFields per package
}

// ---------------------------------------------------------------- F-narrow

// matchFloatNarrow: inside a type-switch clause that matched float64 (the bound
// variable is a float64) a conversion of that variable to float32 throws away 29
// bits of the value; a test built on it ("is this float integral", "are these
// equal") answers for the rounded number. Only clauses whose single matched
// type is float64 (or a named type with that underlying type) are examined.
func matchFloatNarrow(files []*ast.File, info *types.Info) (sites []synSite, examined int) {
	for _, f := range files {
		ast.Inspect(f, func(n ast.Node) bool {
			ts, ok := n.(*ast.TypeSwitchStmt)
			if !ok {
				return true
			}
			for _, cl := range ts.Body.List {
				cc := cl.(*ast.CaseClause)
				bound := info.Implicits[cc]
				if bound == nil || len(cc.List) != 1 {
					continue
				}
				b, ok := bound.Type().Underlying().(*types.Basic)
				if !ok || b.Kind() != types.Float64 {
					continue
				}
				examined++
				for _, st := range cc.Body {
					ast.Inspect(st, func(k ast.Node) bool {
						call, ok := k.(*ast.CallExpr)
						if !ok || len(call.Args) != 1 {
							return true
						}
						tv, ok := info.Types[call.Fun]
						if !ok || !tv.IsType() {
							return true
						}
						tb, ok := tv.Type.Underlying().(*types.Basic)
						if !ok || tb.Kind() != types.Float32 {
							return true
						}
						mentions := false
						ast.Inspect(call.Args[0], func(m ast.Node) bool {
							if id, ok := m.(*ast.Ident); ok && info.Uses[id] == bound {
								mentions = true
							}
							return true
						})
						if mentions {
							name := enclosingFuncName(f, call.Pos())
							sites = append(sites, synSite{pos: call.Pos(), file: f, key: name + ":float64-narrowed",
								msg: fmt.Sprintf("%s converts the float64 it matched to float32 (%s): the value is rounded to 24 bits before it is used", name, types.ExprString(call))})
						}
						return true
					})
				}
			}
			return true
		})
	}
	return
}

const fixtureFloatNarrow = `package fixture

func asInt(v any) (i int64, ok bool) {
	ok = true
	switch tv := v.(type) {
	case float32:
		i = int64(tv)
		if float32(int64(tv)) != tv {
			ok = false
		}
	case float64:
		i = int64(tv)
		if float32(int64(tv)) != float32(tv) {
			ok = false
		}
	}
	return
}
`

func ruleFloatNarrow(prog *Program, rep *Report, rels ...string) {
	rep.Rules = append(rep.Rules, "F-narrow: in a type-switch clause that matched float64 the matched value is never converted to float32: integrality and equality tests see all 53 bits")
	runSynRule(prog, rep, "F-narrow", rels, matchFloatNarrow, fixtureFloatNarrow, 2, 4)
}

// ---------------------------------------------------------------- T-first

// matchFindFirst: a range loop whose body is one `if cond { v = <loop variable> }` is a
// search. With a break (or return) after the assignment it finds the first element that
// satisfies cond, without one the last. The streaming matcher documents "the first target
// that matches"; a search loop there that lost its break reports another target when two
// targets overlap.
func matchFindFirst(files []*ast.File, info *types.Info) (sites []synSite, examined int) {
	for _, f := range files {
		ast.Inspect(f, func(n ast.Node) bool {
			rs, ok := n.(*ast.RangeStmt)
			if !ok || len(rs.Body.List) != 1 {
				return true
			}
			is, ok := rs.Body.List[0].(*ast.IfStmt)
			if !ok || is.Else != nil || is.Init != nil || len(is.Body.List) == 0 {
				return true
			}
			loopVars := map[types.Object]bool{}
			for _, e := range []ast.Expr{rs.Key, rs.Value} {
				if id, ok := e.(*ast.Ident); ok && info.Defs[id] != nil {
					loopVars[info.Defs[id]] = true
				}
			}
			as, ok := is.Body.List[0].(*ast.AssignStmt)
			if !ok || as.Tok != token.ASSIGN || len(as.Lhs) != 1 || len(as.Rhs) != 1 {
				return true
			}
			if !loopVars[useObj(info, as.Rhs[0])] {
				return true
			}
			if _, isId := as.Lhs[0].(*ast.Ident); !isId {
				return true
			}
			examined++
			leaves := false
			for _, st := range is.Body.List[1:] {
				switch x := st.(type) {
				case *ast.BranchStmt:
					if x.Tok == token.BREAK || x.Tok == token.GOTO {
						leaves = true
					}
				case *ast.ReturnStmt:
					leaves = true
				}
			}
			if !leaves {
				name := enclosingFuncName(f, rs.Pos())
				sites = append(sites, synSite{pos: rs.Pos(), file: f, key: name + ":search-without-break:" + types.ExprString(as.Lhs[0]),
					msg: fmt.Sprintf("%s searches %s for an element that satisfies `%s` and keeps going after it found one: the last match is selected, not the first", name, types.ExprString(rs.X), types.ExprString(is.Cond))})
			}
			return true
		})
	}
	return
}

const fixtureFindFirst = `package fixture

type target struct{ path string }

func first(ts []*target, p string) (tr *target) {
	for _, t := range ts {
		if t.path == p {
			tr = t
			break
		}
	}
	return
}

func last(ts []*target, p string) (tr *target) {
	for _, t := range ts {
		if t.path == p {
			tr = t
		}
	}
	return
}
`

func ruleFindFirst(prog *Program, rep *Report, rels ...string) {
	rep.Rules = append(rep.Rules, "T-first: a range loop whose body is one `if cond { v = <loop variable> ... }` leaves the loop after the assignment (break, goto or return): the streaming matcher selects the first target that matches the current path")
	runSynRule(prog, rep, "T-first", rels, matchFindFirst, fixtureFindFirst, 1, 1)
}

// ---------------------------------------------------------------- M-recopt

// matchRecursionDropsOptions: a function that takes its options as a variadic parameter and
// calls itself on the parts of its argument has to hand the options on (`f(part, opt...)`).
// A self-call without them converts everything below that point with the default options.
func matchRecursionDropsOptions(files []*ast.File, info *types.Info) (sites []synSite, examined int) {
	for _, f := range files {
		for _, d := range f.Decls {
			fd, ok := d.(*ast.FuncDecl)
			if !ok || fd.Body == nil || fd.Type.Params == nil || len(fd.Type.Params.List) == 0 {
				continue
			}
			last := fd.Type.Params.List[len(fd.Type.Params.List)-1]
			if _, isVar := last.Type.(*ast.Ellipsis); !isVar || len(last.Names) != 1 {
				continue
			}
			vp := info.Defs[last.Names[0]]
			self := info.Defs[fd.Name]
			nparams := 0
			for _, fl := range fd.Type.Params.List {
				nparams += len(fl.Names)
			}
			ast.Inspect(fd.Body, func(n ast.Node) bool {
				call, ok := n.(*ast.CallExpr)
				if !ok {
					return true
				}
				var callee types.Object
				switch fn := ast.Unparen(call.Fun).(type) {
				case *ast.Ident:
					callee = info.Uses[fn]
				case *ast.SelectorExpr:
					callee = info.Uses[fn.Sel]
				}
				if callee == nil || callee != self {
					return true
				}
				examined++
				passes := false
				for _, a := range call.Args {
					if useObj(info, a) == vp {
						passes = true
					}
					// an element or a value derived from the options also counts (opt[0], o)
					ast.Inspect(a, func(k ast.Node) bool {
						if id, ok := k.(*ast.Ident); ok && info.Uses[id] == vp {
							passes = true
						}
						return true
					})
				}
				if !passes && len(call.Args) < nparams {
					name := enclosingFuncName(f, call.Pos())
					if recOptAccepted[name] != "" {
						return true
					}
					sites = append(sites, synSite{pos: call.Pos(), file: f, key: name + ":self-call-without-" + vp.Name(),
						msg: fmt.Sprintf("%s calls itself without its variadic parameter %s: everything below this point is processed with the defaults instead of the caller's options", name, vp.Name())})
				}
				return true
			})
		}
	}
	return
}

// recOptAccepted: self-calls without the variadic parameter that were read and are intended.
var recOptAccepted = map[string]string{
	"diff": "alt.diff drops the ignore paths on purpose where the path's index does not select the element being compared (the else branch of `ii == i || ii < 0`)",
}

const fixtureRecursionDropsOptions = `package fixture

type Options struct{ OmitNil bool }

func conv(v any, opt ...*Options) any {
	switch tv := v.(type) {
	case []any:
		a := make([]any, len(tv))
		for i, m := range tv {
			a[i] = conv(m)
		}
		return a
	case map[string]any:
		o := map[string]any{}
		for k, m := range tv {
			o[k] = conv(m, opt...)
		}
		return o
	}
	return v
}
`

func ruleRecursionDropsOptions(prog *Program, rep *Report, rels ...string) {
	rep.Rules = append(rep.Rules, "M-recopt: a function with a variadic options parameter that calls itself on the parts of its argument hands the options on: no self-call omits them")
	runSynRule(prog, rep, "M-recopt", rels, matchRecursionDropsOptions, fixtureRecursionDropsOptions, 1, 4)
}

// ---------------------------------------------------------------- M-normtwin

// ruleNormalizeTwins: the script evaluator normalises operand values (int kinds to int64, float
// kinds to float64, gen nodes to their simple values) in two places: the function normalize and
// an inlined copy of its type switch in evalWithRoot. For every case type both have, the
// conversion applied must be the same (gen.Float -> float64 in one and int64 in the other makes
// gen data compare differently from simple data).
func ruleNormalizeTwins(prog *Program, rep *Report) {
	rep.Rules = append(rep.Rules, "M-normtwin: every type switch of package jp that normalises operand kinds (it has a case for gen.Float) applies, for each case type it shares with another such switch, the same conversion; and no float case type is converted to an integer type")
	pk := prog.Pkg("jp")
	if pk == nil {
		rep.Errorf("M-normtwin: package jp not loaded")
		return
	}
	info := pk.TypesInfo
	type sw struct {
		fn   string
		pos  token.Pos
		conv map[string]string
	}
	var sws []sw
	for _, f := range pk.Syntax {
		if strings.HasSuffix(prog.Fset.Position(f.Pos()).Filename, "_test.go") {
			continue
		}
		for _, d := range f.Decls {
			fd, ok := d.(*ast.FuncDecl)
			if !ok || fd.Body == nil {
				continue
			}
			ast.Inspect(fd.Body, func(n ast.Node) bool {
				ts, ok := n.(*ast.TypeSwitchStmt)
				if !ok {
					return true
				}
				conv := map[string]string{}
				hasGenFloat := false
				for _, cl := range ts.Body.List {
					cc := cl.(*ast.CaseClause)
					if len(cc.List) != 1 || len(cc.Body) != 1 {
						continue
					}
					as, ok := cc.Body[0].(*ast.AssignStmt)
					if !ok || len(as.Rhs) != 1 {
						continue
					}
					call, ok := ast.Unparen(as.Rhs[0]).(*ast.CallExpr)
					if !ok || len(call.Args) != 1 {
						continue
					}
					tv, ok := info.Types[call.Fun]
					if !ok || !tv.IsType() {
						continue
					}
					ct := types.ExprString(cc.List[0])
					if ct == "gen.Float" {
						hasGenFloat = true
					}
					conv[ct] = types.TypeString(tv.Type, types.RelativeTo(pk.Types))
				}
				if hasGenFloat && len(conv) >= 4 {
					sws = append(sws, sw{funcKey(fd), ts.Pos(), conv})
				}
				return true
			})
		}
	}
	if len(sws) < 2 {
		rep.Errorf("M-normtwin: %d normalising switches found (floor 2)", len(sws))
		return
	}
	sort.Slice(sws, func(i, j int) bool { return sws[i].pos < sws[j].pos })
	cells := 0
	for i, s := range sws {
		for ct, t := range s.conv {
			cells++
			key := fmt.Sprintf("jp.%s#%d:case %s", s.fn, i+1, ct)
			isFloatCase := strings.Contains(strings.ToLower(ct), "float")
			if isFloatCase && strings.HasPrefix(t, "int") {
				rep.Violate(Finding{Rule: "M-normtwin", Key: key + ":float-to-int", Pos: prog.Pos(s.pos), Msg: fmt.Sprintf("%s normalises %s with %s(...): the fraction is cut off before the comparison", s.fn, ct, t)})
				continue
			}
			bad := ""
			for j, o := range sws {
				if j != i {
					if ot, ok := o.conv[ct]; ok && ot != t {
						bad = fmt.Sprintf("%s converts it with %s", o.fn, ot)
					}
				}
			}
			if bad != "" {
				rep.Violate(Finding{Rule: "M-normtwin", Key: key, Pos: prog.Pos(s.pos), Msg: fmt.Sprintf("%s normalises %s with %s(...) but %s: the two copies of the normalisation disagree", s.fn, ct, t, bad)})
			} else {
				rep.Discharge("M-normtwin", key, prog.Pos(s.pos), t)
			}
		}
	}
	rep.Eval(cells)
}

// ---------------------------------------------------------------- B-pushpair

// rulePushPair: in the first pass of a descent the evaluators push every container child as a
// pair: the value, then a frame `fi|descentChildFlag` that tells the second pass which fragment
// the value belongs to. A value pushed without its frame is read as belonging to whatever frame
// lies above it. In every statement list inside a `case Descent:` clause that pushes a frame
// with descentChildFlag, each value push is directly followed by such a frame push.
func rulePushPair(prog *Program, rep *Report, inScope func(fd *ast.FuncDecl) bool, floor int) {
	rep.Rules = append(rep.Rules, "B-pushpair: inside every `case Descent:` clause of package jp, in each statement list that pushes a child frame (an integer expression with descentChildFlag) onto the traversal stack, every push of a value is directly followed by such a frame push: no child is left without the frame that names its fragment")
	pk := prog.Pkg("jp")
	if pk == nil {
		rep.Errorf("B-pushpair: package jp not loaded")
		return
	}
	info := pk.TypesInfo
	lists := 0
	for _, f := range pk.Syntax {
		if strings.HasSuffix(prog.Fset.Position(f.Pos()).Filename, "_test.go") {
			continue
		}
		for _, d := range f.Decls {
			fd, ok := d.(*ast.FuncDecl)
			if !ok || fd.Body == nil || (inScope != nil && !inScope(fd)) {
				continue
			}
			idx := 0
			ast.Inspect(fd.Body, func(n ast.Node) bool {
				cc, ok := n.(*ast.CaseClause)
				if !ok || len(cc.List) != 1 || types.ExprString(cc.List[0]) != "Descent" {
					return true
				}
				push := func(st ast.Stmt) (isPush, isFrame bool) {
					as, ok := st.(*ast.AssignStmt)
					if !ok || len(as.Lhs) != 1 || len(as.Rhs) != 1 {
						return
					}
					call, ok := as.Rhs[0].(*ast.CallExpr)
					if !ok || len(call.Args) != 2 {
						return
					}
					if id, ok := call.Fun.(*ast.Ident); !ok || id.Name != "append" || types.ExprString(call.Args[0]) != types.ExprString(as.Lhs[0]) {
						return
					}
					isPush = true
					isFrame = strings.Contains(types.ExprString(call.Args[1]), "descentChildFlag")
					return
				}
				for _, body := range cc.Body {
					ast.Inspect(body, func(k ast.Node) bool {
						var list []ast.Stmt
						switch b := k.(type) {
						case *ast.BlockStmt:
							list = b.List
						case *ast.CaseClause:
							list = b.Body
						default:
							return true
						}
						hasFrame := false
						for _, st := range list {
							if _, fr := push(st); fr {
								hasFrame = true
							}
						}
						if !hasFrame {
							// a list that pushes values only: it must not sit next to sibling lists (clauses of
							// the same switch) that pair their pushes
							return true
						}
						lists++
						for i, st := range list {
							p, fr := push(st)
							if !p || fr {
								continue
							}
							if i+1 < len(list) {
								if _, fr2 := push(list[i+1]); fr2 {
									continue
								}
							}
							idx++
							rep.Violate(Finding{Rule: "B-pushpair", Key: fmt.Sprintf("jp.%s:value-without-frame#%d", funcKey(fd), idx), Pos: prog.Pos(st.Pos()), Msg: funcKey(fd) + " pushes a child value in a descent without the frame that names its fragment right after it"})
						}
						return true
					})
				}
				// the first pass (`if (di & descentFlag) == 0 {`): every value pushed onto the stack named by the
				// frame pushes is paired, whichever list it sits in
				stackName := ""
				for _, body := range cc.Body {
					ast.Inspect(body, func(k ast.Node) bool {
						if st, ok := k.(ast.Stmt); ok {
							if _, fr := push(st); fr {
								stackName = types.ExprString(st.(*ast.AssignStmt).Lhs[0])
							}
						}
						return true
					})
				}
				for _, body := range cc.Body {
					ast.Inspect(body, func(k ast.Node) bool {
						is, ok := k.(*ast.IfStmt)
						if !ok || stackName == "" {
							return true
						}
						ct := strings.ReplaceAll(types.ExprString(is.Cond), " ", "")
						if !strings.Contains(ct, "descentFlag)==0") {
							return true
						}
						ast.Inspect(is.Body, func(q ast.Node) bool {
							var list []ast.Stmt
							switch b := q.(type) {
							case *ast.BlockStmt:
								list = b.List
							case *ast.CaseClause:
								list = b.Body
							default:
								return true
							}
							for i, st := range list {
								p, fr := push(st)
								if !p || fr || types.ExprString(st.(*ast.AssignStmt).Lhs[0]) != stackName {
									continue
								}
								if i+1 < len(list) {
									if _, fr2 := push(list[i+1]); fr2 {
										continue
									}
								}
								// the descent's own frame: append(stack, di|descentFlag) is not a child push
								if strings.Contains(types.ExprString(st.(*ast.AssignStmt).Rhs[0]), "descentFlag") {
									continue
								}
								idx++
								rep.Violate(Finding{Rule: "B-pushpair", Key: fmt.Sprintf("jp.%s:first-pass-value-without-frame#%d", funcKey(fd), idx), Pos: prog.Pos(st.Pos()), Msg: funcKey(fd) + " pushes a child value in the first pass of a descent without the frame that names its fragment right after it"})
							}
							return true
						})
						return false
					})
				}
				// sibling clauses of one inner switch: if some clause pairs, every clause that pushes a value pairs
				for _, body := range cc.Body {
					ast.Inspect(body, func(k ast.Node) bool {
						var clauses []*ast.CaseClause
						switch s := k.(type) {
						case *ast.TypeSwitchStmt:
							for _, c := range s.Body.List {
								clauses = append(clauses, c.(*ast.CaseClause))
							}
						case *ast.SwitchStmt:
							for _, c := range s.Body.List {
								clauses = append(clauses, c.(*ast.CaseClause))
							}
						default:
							return true
						}
						anyPair := false
						for _, c := range clauses {
							for _, st := range c.Body {
								if _, fr := push(st); fr {
									anyPair = true
								}
							}
						}
						if !anyPair {
							return true
						}
						for _, c := range clauses {
							vals, frames := 0, 0
							for _, st := range c.Body {
								if p, fr := push(st); p {
									if fr {
										frames++
									} else {
										vals++
									}
								}
							}
							if vals > 0 && frames == 0 {
								idx++
								rep.Violate(Finding{Rule: "B-pushpair", Key: fmt.Sprintf("jp.%s:clause-without-frame#%d", funcKey(fd), idx), Pos: prog.Pos(c.Pos()), Msg: funcKey(fd) + " has a clause that pushes a child value in a descent without any frame, next to sibling clauses that push value and frame"})
							}
						}
						return true
					})
				}
				return true
			})
		}
	}
	rep.Eval(lists)
	rep.Discharge("B-pushpair", "jp", "jp", fmt.Sprintf("%d statement lists that push child frames examined", lists))
	if lists < floor {
		rep.Errorf("B-pushpair examined %d statement lists (floor %d)", lists, floor)
	}
	_ = info
}

// ---------------------------------------------------------------- M-inplace

// matchResliceInput: `ns := tv[:0]` followed by appends compacts the caller's array in place.
// In the removal code the filter predicate is evaluated while the loop runs and may read the
// very list being compacted (through `$`), and the original list stays visible to the caller
// through other references: the copy has to be a fresh slice. Reported: a slice expression
// with high bound 0 whose operand is a parameter or a type-switch binding (the input), not a
// local buffer of the function.
func matchResliceInput(files []*ast.File, info *types.Info) (sites []synSite, examined int) {
	for _, f := range files {
		for _, d := range f.Decls {
			fd, ok := d.(*ast.FuncDecl)
			if !ok || fd.Body == nil {
				continue
			}
			inputs := map[types.Object]bool{}
			if fd.Type.Params != nil {
				for _, fl := range fd.Type.Params.List {
					for _, n := range fl.Names {
						inputs[info.Defs[n]] = true
					}
				}
			}
			ast.Inspect(fd.Body, func(n ast.Node) bool {
				if ts, ok := n.(*ast.TypeSwitchStmt); ok {
					for _, cl := range ts.Body.List {
						if o := info.Implicits[cl]; o != nil {
							inputs[o] = true
						}
					}
				}
				return true
			})
			ast.Inspect(fd.Body, func(n ast.Node) bool {
				se, ok := n.(*ast.SliceExpr)
				if !ok || se.High == nil {
					return true
				}
				if tv, ok := info.Types[se.High]; !ok || tv.Value == nil || tv.Value.ExactString() != "0" {
					return true
				}
				examined++
				if o := useObj(info, se.X); o != nil && inputs[o] {
					name := enclosingFuncName(f, se.Pos())
					sites = append(sites, synSite{pos: se.Pos(), file: f, key: name + ":reslices-input:" + types.ExprString(se.X),
						msg: fmt.Sprintf("%s takes %s, a zero-length view of its input, as the buffer it appends the kept elements to: the input array is overwritten in place while it is still being read", name, types.ExprString(se))})
				}
				return true
			})
		}
	}
	return
}

const fixtureResliceInput = `package fixture

func remove(value any, keep func(any) bool) any {
	switch tv := value.(type) {
	case []any:
		ns := tv[:0]
		for _, v := range tv {
			if keep(v) {
				ns = append(ns, v)
			}
		}
		return ns
	}
	return value
}

func fine(n int) []int {
	cur := make([]int, 0, n)
	next := make([]int, 0, n)
	for i := 0; i < n; i++ {
		cur, next = next, cur[:0]
	}
	return next
}
`

func ruleResliceInput(prog *Program, rep *Report, rels ...string) {
	rep.Rules = append(rep.Rules, "M-inplace: no function of the package uses a zero-length reslice of its input (a parameter or a type-switch binding: `ns := tv[:0]`) as the buffer for the elements it keeps: removal builds a fresh slice and leaves the input array as it was")
	floor := 1
	if len(rels) == 1 && rels[0] == "asm" {
		floor = 0 // no zero-length reslice exists in asm today: the fixture is the positive control
	}
	runSynRule(prog, rep, "M-inplace", rels, matchResliceInput, fixtureResliceInput, 1, floor)
}

// ---------------------------------------------------------------- B-kindlist

// ruleKindList: the evaluators decide "is this child a container worth descending into" with a
// case list of the six container kinds (map[string]any, []any, gen.Object, gen.Array, Keyed,
// Indexed), 111 times. A copy that lists some of them but not all silently stops descending
// into the kinds it dropped.
func ruleKindList(prog *Program, rep *Report, inScope func(fd *ast.FuncDecl) bool, floor int) {
	rep.Rules = append(rep.Rules, "B-kindlist: every case clause of package jp that lists at least three of the six container kinds (map[string]any, []any, gen.Object, gen.Array, Keyed, Indexed) lists all six: no copy of the container test forgets a representation")
	pk := prog.Pkg("jp")
	if pk == nil {
		rep.Errorf("B-kindlist: package jp not loaded")
		return
	}
	six := map[string]bool{"map[string]any": true, "[]any": true, "gen.Object": true, "gen.Array": true, "Keyed": true, "Indexed": true}
	n := 0
	for _, f := range pk.Syntax {
		if strings.HasSuffix(prog.Fset.Position(f.Pos()).Filename, "_test.go") {
			continue
		}
		for _, d := range f.Decls {
			fd, ok := d.(*ast.FuncDecl)
			if !ok || fd.Body == nil || (inScope != nil && !inScope(fd)) {
				continue
			}
			idx := 0
			ast.Inspect(fd.Body, func(k ast.Node) bool {
				cc, ok := k.(*ast.CaseClause)
				if !ok {
					return true
				}
				have := map[string]bool{}
				for _, e := range cc.List {
					if t := types.ExprString(e); six[t] {
						have[t] = true
					}
				}
				if len(have) < 3 {
					return true
				}
				n++
				if len(have) == 6 {
					return true
				}
				var missing []string
				for t := range six {
					if !have[t] {
						missing = append(missing, t)
					}
				}
				sort.Strings(missing)
				idx++
				rep.Violate(Finding{Rule: "B-kindlist", Key: fmt.Sprintf("jp.%s:kinds-missing#%d:%s", funcKey(fd), idx, strings.Join(missing, ",")), Pos: prog.Pos(cc.Pos()), Msg: fmt.Sprintf("%s tests for a container with a case list that lacks %s: values of that representation are not descended into here", funcKey(fd), strings.Join(missing, ", "))})
				return true
			})
		}
	}
	rep.Eval(n)
	rep.Discharge("B-kindlist", "jp", "jp", fmt.Sprintf("%d container case lists examined", n))
	if n < floor {
		rep.Errorf("B-kindlist examined %d case lists (floor %d)", n, floor)
	}
}

// ---------------------------------------------------------------- M-resultalias

// matchResultAlias: an evaluator collects its results in a slice of its own. Assigning one of the
// document's containers to that slice (`results = tv`) makes later appends write into the
// document's array and hands the caller the document's own memory. Reported: an assignment
// whose left side is the named result (or a local returned by the function) of slice type and
// whose right side is a type-switch binding or a parameter.
func matchResultAlias(files []*ast.File, info *types.Info) (sites []synSite, examined int) {
	for _, f := range files {
		for _, d := range f.Decls {
			fd, ok := d.(*ast.FuncDecl)
			if !ok || fd.Body == nil || fd.Type.Results == nil {
				continue
			}
			results := map[types.Object]bool{}
			for _, fl := range fd.Type.Results.List {
				for _, n := range fl.Names {
					if o := info.Defs[n]; o != nil {
						if _, isSlice := o.Type().Underlying().(*types.Slice); isSlice {
							results[o] = true
						}
					}
				}
			}
			if len(results) == 0 {
				continue
			}
			inputs := map[types.Object]bool{}
			if fd.Type.Params != nil {
				for _, fl := range fd.Type.Params.List {
					for _, n := range fl.Names {
						inputs[info.Defs[n]] = true
					}
				}
			}
			ast.Inspect(fd.Body, func(n ast.Node) bool {
				if ts, ok := n.(*ast.TypeSwitchStmt); ok {
					for _, cl := range ts.Body.List {
						if o := info.Implicits[cl]; o != nil {
							inputs[o] = true
						}
					}
				}
				return true
			})
			ast.Inspect(fd.Body, func(n ast.Node) bool {
				as, ok := n.(*ast.AssignStmt)
				if !ok || len(as.Lhs) != len(as.Rhs) {
					return true
				}
				for i, l := range as.Lhs {
					lo := useObj(info, l)
					if lo == nil || !results[lo] {
						continue
					}
					examined++
					if ro := useObj(info, as.Rhs[i]); ro != nil && inputs[ro] {
						name := enclosingFuncName(f, as.Pos())
						sites = append(sites, synSite{pos: as.Pos(), file: f, key: name + ":result-is-input:" + ro.Name(),
							msg: fmt.Sprintf("%s assigns %s, a container of the data it evaluates, to its result slice %s: the caller receives the document's own array and later appends write into it", name, ro.Name(), lo.Name())})
					}
				}
				return true
			})
		}
	}
	return
}

const fixtureResultAlias = `package fixture

func get(data any) (results []any) {
	switch tv := data.(type) {
	case []any:
		if results == nil {
			results = tv
		} else {
			results = append(results, tv...)
		}
	}
	return
}
`

func ruleResultAlias(prog *Program, rep *Report, rels ...string) {
	rep.Rules = append(rep.Rules, "M-resultalias: no function of package jp assigns a parameter or a type-switch binding (a container of the data) to its named result slice: results are collected in memory of their own")
	runSynRule(prog, rep, "M-resultalias", rels, matchResultAlias, fixtureResultAlias, 1, 20)
}

// ---------------------------------------------------------------- R-reuseguard

// ruleReuseGuard: a map goes into the recycle list (p.maps = append(p.maps, m)) only when the Reuse
// option is on: a map made while it is off has been handed to the caller for good, and would be
// cleared and refilled once Reuse is switched on for a later document.
func ruleReuseGuard(prog *Program, rep *Report) {
	rep.Rules = append(rep.Rules, "R-reuseguard: every append to a parser's list of recycled maps sits in the then-branch of a test of the Reuse option alone (`if p.Reuse {`): maps created with Reuse off never enter the recycle list")
	n := 0
	for _, rel := range []string{"oj", "gen"} {
		pk := prog.Pkg(rel)
		if pk == nil {
			continue
		}
		for _, f := range pk.Syntax {
			if strings.HasSuffix(prog.Fset.Position(f.Pos()).Filename, "_test.go") {
				continue
			}
			for _, d := range f.Decls {
				fd, ok := d.(*ast.FuncDecl)
				if !ok || fd.Body == nil {
					continue
				}
				var path []ast.Node
				ast.Inspect(fd.Body, func(k ast.Node) bool {
					if k == nil {
						path = path[:len(path)-1]
						return true
					}
					path = append(path, k)
					as, ok := k.(*ast.AssignStmt)
					if !ok || len(as.Lhs) != 1 || len(as.Rhs) != 1 {
						return true
					}
					sel, ok := as.Lhs[0].(*ast.SelectorExpr)
					if !ok || sel.Sel.Name != "maps" {
						return true
					}
					call, ok := as.Rhs[0].(*ast.CallExpr)
					if !ok {
						return true
					}
					if id, ok := call.Fun.(*ast.Ident); !ok || id.Name != "append" {
						return true
					}
					n++
					guarded := false
					for i := len(path) - 2; i >= 0; i-- {
						is, ok := path[i].(*ast.IfStmt)
						if !ok || !nodeWithin(is.Body, as) {
							continue
						}
						if c, ok := ast.Unparen(is.Cond).(*ast.SelectorExpr); ok && c.Sel.Name == "Reuse" {
							guarded = true
						}
					}
					key := fmt.Sprintf("%s.%s:maps-append#%d", rel, funcKey(fd), n)
					if guarded {
						rep.Discharge("R-reuseguard", key, prog.Pos(as.Pos()), "inside `if <parser>.Reuse {`")
					} else {
						rep.Violate(Finding{Rule: "R-reuseguard", Key: key, Pos: prog.Pos(as.Pos()), Msg: funcKey(fd) + " appends a map to the recycle list outside a test of the Reuse option alone: a map handed out with Reuse off is cleared and refilled by a later parse with Reuse on"})
					}
					return true
				})
			}
		}
	}
	rep.Eval(n)
	if n < 2 {
		rep.Errorf("R-reuseguard found %d appends to a recycle list (floor 2)", n)
	}
}

// ---------------------------------------------------------------- M-recnil

// matchRecursionPassesNil: a function that walks a tree and takes context in a pointer or
// interface parameter (the parent operator, the enclosing struct info) hands that context on
// when it calls itself. A self-call with the literal nil in such a position, while other
// self-calls of the same function pass a value there, drops the context for one branch.
func matchRecursionPassesNil(files []*ast.File, info *types.Info) (sites []synSite, examined int) {
	for _, f := range files {
		for _, d := range f.Decls {
			fd, ok := d.(*ast.FuncDecl)
			if !ok || fd.Body == nil {
				continue
			}
			self := info.Defs[fd.Name]
			type sc struct {
				call *ast.CallExpr
			}
			var calls []*ast.CallExpr
			ast.Inspect(fd.Body, func(n ast.Node) bool {
				call, ok := n.(*ast.CallExpr)
				if !ok {
					return true
				}
				var callee types.Object
				switch fn := ast.Unparen(call.Fun).(type) {
				case *ast.Ident:
					callee = info.Uses[fn]
				case *ast.SelectorExpr:
					callee = info.Uses[fn.Sel]
				}
				if callee != nil && callee == self {
					calls = append(calls, call)
				}
				return true
			})
			if len(calls) < 2 {
				continue
			}
			npos := 0
			for _, c := range calls {
				if len(c.Args) > npos {
					npos = len(c.Args)
				}
			}
			for i := 0; i < npos; i++ {
				nils, vals := 0, 0
				var nilCall *ast.CallExpr
				for _, c := range calls {
					if i >= len(c.Args) {
						continue
					}
					if id, ok := ast.Unparen(c.Args[i]).(*ast.Ident); ok && id.Name == "nil" {
						nils++
						nilCall = c
					} else {
						vals++
					}
				}
				if nils+vals > 0 {
					examined++
				}
				if nils == 1 && vals >= 1 {
					name := enclosingFuncName(f, nilCall.Pos())
					sites = append(sites, synSite{pos: nilCall.Pos(), file: f, key: fmt.Sprintf("%s:self-call-nil-arg%d", name, i),
						msg: fmt.Sprintf("%s calls itself with nil as argument %d here while its other self-call(s) pass a value in that position: the context is dropped for this branch", name, i+1)})
				}
			}
		}
	}
	return
}

const fixtureRecursionPassesNil = `package fixture

type op struct{ prec int }
type eq struct {
	o           *op
	left, right *eq
}

func reduce(e *eq, po *op) *eq {
	if e == nil {
		return nil
	}
	if e.o == nil && e.left != nil && e.right == nil {
		return reduce(e.left, nil)
	}
	e.left = reduce(e.left, e.o)
	e.right = reduce(e.right, e.o)
	_ = po
	return e
}
`

func ruleRecursionPassesNil(prog *Program, rep *Report, rels ...string) {
	rep.Rules = append(rep.Rules, "M-recnil: among the self-calls of one function no single call passes the literal nil in an argument position where the others pass a value: context handed down a recursion is handed down every branch")
	runSynRule(prog, rep, "M-recnil", rels, matchRecursionPassesNil, fixtureRecursionPassesNil, 1, 2)
}
