package main

import (
	"fmt"
	"go/ast"
	"go/token"
	"go/types"
	"sort"
	"strings"
)

// K-pkgtwins: package sen's writer, tight writer, struct-field plans and field
// accessors were copied from package oj (and alt's field plans from both). A
// function that exists under the same name (and receiver) in two of these
// packages must keep the same integer fingerprint - index arithmetic, length
// tests, loop headers, labelled branches - unless the pair is listed with the
// difference that was read and the reason for it.
func pkgTwinFingerprints(prog *Program, relA, relB string) (keys []string, fa, fb map[string][]string, pos map[string]*ast.FuncDecl) {
	fa, fb, pos = map[string][]string{}, map[string][]string{}, map[string]*ast.FuncDecl{}
	collect := func(rel string) map[string]*ast.FuncDecl {
		out := map[string]*ast.FuncDecl{}
		pk := prog.Pkg(rel)
		if pk == nil {
			return out
		}
		for _, f := range pk.Syntax {
			if strings.HasSuffix(prog.Fset.Position(f.Pos()).Filename, "_test.go") {
				continue
			}
			for _, d := range f.Decls {
				if fd, ok := d.(*ast.FuncDecl); ok && fd.Body != nil {
					out[funcKey(fd)] = fd
				}
			}
		}
		return out
	}
	da, db := collect(relA), collect(relB)
	for k, a := range da {
		b := db[k]
		if b == nil {
			continue
		}
		keys = append(keys, k)
		fa[k] = arithFingerprint(prog, prog.Pkg(relA), a.Body, "")
		fb[k] = arithFingerprint(prog, prog.Pkg(relB), b.Body, "")
		pos[k] = b
	}
	sort.Strings(keys)
	return
}

// pkgTwinAccepted: key "relA=relB:func" -> {only in A, only in B, reason}.
var pkgTwinAccepted = map[string][3]string{
	"oj=sen:Writer.colorArray":  {"if 0 < j", "if 0 < j && len(cs) == 0", "JSON writes a comma between elements; the coloured SEN form separates them by the indentation string, or by one space when there is none"},
	"oj=sen:Writer.colorObject": {"", "if len(cs) == 0  (x2)", "as colorArray: SEN members are separated by the indentation string or one space, JSON members by a comma"},
	"oj=sen:appendObject":       {"empty := true | empty = false", "", "the flag steers the comma-to-newline overwrite; the indented SEN writer appends no member separator"},
	"oj=sen:appendSortObject":   {"empty := true | empty = false", "", "as appendObject"},
	"oj=sen:tightArray":         {"", "space := false | space = false | space = true", "SEN separates elements by a space only where the next token needs one (needSep); JSON always writes a comma"},
}

// pkgTwinSkip: same-named functions that are not copies of each other.
var pkgTwinSkip = map[string]string{
	"Parser.parseBuffer":       "the SEN and JSON dispatch loops read different languages; compared by Engine A",
	"Parser.add":               "the two parsers keep different build stacks (oj tests the stack depth, sen the container markers); both are followed by Engine A",
	"Tokenizer.tokenizeBuffer": "as Parser.parseBuffer",
}

func rulePkgTwins(prog *Program, rep *Report, relA, relB string, floor int) {
	rep.Rules = append(rep.Rules, fmt.Sprintf("K-pkgtwins: every function that exists under the same name and receiver in packages %s and %s has the same integer fingerprint (integer assignments and tests, loop headers, labelled branches), or the pair is listed with the exact difference that was read and its reason", relA, relB))
	keys, fa, fb, pos := pkgTwinFingerprints(prog, relA, relB)
	compared := 0
	for _, k := range keys {
		if (len(fa[k]) == 0 && len(fb[k]) == 0) || pkgTwinSkip[k] != "" {
			continue
		}
		compared++
		key := fmt.Sprintf("%s=%s:%s", relA, relB, k)
		if strings.Join(fa[k], "\n") == strings.Join(fb[k], "\n") {
			rep.Discharge("K-pkgtwins", key, prog.Pos(pos[k].Pos()), fmt.Sprintf("%d fingerprint lines equal", len(fa[k])))
			continue
		}
		onlyA, onlyB := diffLines(fa[k], fb[k])
		if acc, ok := pkgTwinAccepted[key]; ok && strings.Join(onlyA, " | ") == acc[0] && strings.Join(onlyB, " | ") == acc[1] {
			rep.Discharge("K-pkgtwins", key, prog.Pos(pos[k].Pos()), "accepted difference (read): "+acc[2])
			continue
		}
		rep.Violate(Finding{Rule: "K-pkgtwins", Key: key, Pos: prog.Pos(pos[k].Pos()), Msg: fmt.Sprintf("%s differs between %s and %s: only in %s [%s]; only in %s [%s]", k, relA, relB, relA, strings.Join(onlyA, " | "), relB, strings.Join(onlyB, " | "))})
	}
	rep.Eval(compared)
	if compared < floor {
		rep.Errorf("K-pkgtwins compared %d function pairs of %s and %s (floor %d)", compared, relA, relB, floor)
	}
}

// ruleTightAppendTwins: K-omitguards. Each writer has a compact and an indented emitter for the
// same kind of value (tightMap / appendMap, tightStruct / appendStruct, tightSlice / appendSlice,
// tightObject / appendObject, ...). Which members are omitted must not depend on the layout:
// the conditions under which a twin skips a member (`if cond { continue }`) are the same
// multiset in both.
func ruleTightAppendTwins(prog *Program, rep *Report, rels ...string) {
	rep.Rules = append(rep.Rules, "K-omitguards: the compact and the indented emitter of one writer for the same kind of value (tightX / appendX) skip members under the same conditions (multiset of the conditions of `if cond { continue }`) and test reflected kinds with the same conditions (if-conditions that call Kind()): what is omitted, and which values take a special path, does not depend on the layout")
	pairs := 0
	for _, rel := range rels {
		pk := prog.Pkg(rel)
		if pk == nil {
			continue
		}
		guards := map[string][]string{}
		decls := map[string]*ast.FuncDecl{}
		for _, f := range pk.Syntax {
			if strings.HasSuffix(prog.Fset.Position(f.Pos()).Filename, "_test.go") {
				continue
			}
			for _, d := range f.Decls {
				fd, ok := d.(*ast.FuncDecl)
				if !ok || fd.Body == nil {
					continue
				}
				name := fd.Name.Name
				if !strings.HasPrefix(name, "tight") && !strings.HasPrefix(name, "append") {
					continue
				}
				var g []string
				ast.Inspect(fd.Body, func(n ast.Node) bool {
					is, ok := n.(*ast.IfStmt)
					if !ok || is.Else != nil || len(is.Body.List) == 0 {
						return true
					}
					if br, ok := is.Body.List[len(is.Body.List)-1].(*ast.BranchStmt); ok && br.Tok == token.CONTINUE {
						g = append(g, strings.ReplaceAll(types.ExprString(is.Cond), " ", ""))
					} else if c := strings.ReplaceAll(types.ExprString(is.Cond), " ", ""); strings.Contains(c, ".Kind()") {
						g = append(g, "kind:"+c) // which reflected kinds take a special path ([]byte as bytes, pointers followed)
					}
					return true
				})
				sort.Strings(g)
				guards[name] = g
				decls[name] = fd
			}
		}
		var names []string
		for n := range guards {
			if strings.HasPrefix(n, "tight") {
				names = append(names, n)
			}
		}
		sort.Strings(names)
		for _, t := range names {
			a := "append" + strings.TrimPrefix(t, "tight")
			if _, ok := guards[a]; !ok {
				continue
			}
			pairs++
			key := fmt.Sprintf("%s.%s=%s", rel, t, a)
			if strings.Join(guards[t], " ; ") == strings.Join(guards[a], " ; ") {
				rep.Discharge("K-omitguards", key, prog.Pos(decls[t].Pos()), fmt.Sprintf("%d skip conditions, equal", len(guards[t])))
				continue
			}
			onlyT, onlyA := diffLines(guards[t], guards[a])
			if acc, ok := omitGuardAccepted[key]; ok && strings.Join(onlyT, " | ") == acc[0] && strings.Join(onlyA, " | ") == acc[1] {
				rep.Discharge("K-omitguards", key, prog.Pos(decls[t].Pos()), "accepted difference (read): "+acc[2])
				continue
			}
			rep.Violate(Finding{Rule: "K-omitguards", Key: key, Pos: prog.Pos(decls[t].Pos()), Msg: fmt.Sprintf("%s and %s skip members under different conditions: only %s [%s]; only %s [%s]: the same value loses a member in one layout and keeps it in the other", t, a, t, strings.Join(onlyT, " | "), a, strings.Join(onlyA, " | "))})
		}
	}
	rep.Eval(pairs)
	if pairs < 4*len(rels) {
		rep.Errorf("K-omitguards compared %d twin pairs (floor %d)", pairs, 4*len(rels))
	}
}

// omitGuardAccepted: key -> {only in the compact twin, only in the indented twin, reason}.
var omitGuardAccepted = map[string][3]string{
	"oj.tightSlice=appendSlice": {"kind:rm.Kind()==reflect.Ptr&&!rm.IsNil()", "", "the compact emitter follows a non-nil pointer element itself (added with the nil-element repair); the indented one hands the pointer to appendJSON, whose default arm follows it: same text"},
}
