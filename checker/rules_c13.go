package main

func ruleC13Extra(prog *Program, rep *Report) {}
