package main

import (
	"fmt"
	"go/ast"
	"go/types"
	"strings"
)

// ruleC13Extra: B-twins. The remove / removeOne methods of the fragments (Slice, Union,
// Wildcard, Nth, Child, Filter) are not part of the evaluator cell table, but each of them
// holds the same pair of copies: one clause of its type switch for []any and one for
// gen.Array (and for map[string]any / gen.Object). The index-selection fingerprint of the
// two clauses of a pair must be equal: which elements go, the compaction loop, the
// reversal after a downward walk.
// twinAccepted: differences between twin clauses confirmed by reading to change nothing; any other difference
// in the same pair is still reported. key -> {only in the first clause, only in the second, reason}.
var twinAccepted = map[string][3]string{
	"jp.Expr.FirstFound#4:[]any=gen.Array": {
		"if 0 < LEN",
		"",
		"wildcard as the last fragment: the []any copy returns tv[0] under `if 0 < len(tv)`, the gen.Array copy returns from the first iteration of `for _, v = range tv` - the same element",
	},
	"jp.Expr.modify#10:[]any=gen.Array": {
		"",
		"push fi | descentChildFlag",
		"descent: the simple-data copies push through the helper descentAddValue(stack, v, fi), the gen copies push inline",
	},
	"jp.Expr.modify#10:map[string]any=gen.Object": {
		"",
		"push fi | descentChildFlag",
		"descent: the simple-data copies push through the helper descentAddValue(stack, v, fi), the gen copies push inline",
	},
	"jp.Slice.remove#1:[]any=gen.Array": {
		"if start < 0 || end < 0 || LEN <= start || step == 0",
		"if start < 0 || end < 0 || LEN <= start || LEN <= end || step == 0",
		"the extra conjunct LEN <= end of the gen.Array copy is dead: the statement before it clamps end to LEN-1",
	},
}

func ruleC13Extra(prog *Program, rep *Report) {
	ruleTwinClauses(prog, rep, 20, func(fd *ast.FuncDecl) bool { return twinScope(fd) == "C13" })
}

// twinScope: which property a function of jp belongs to for the twin-clause comparison.
func twinScope(fd *ast.FuncDecl) string {
	k := funcKey(fd)
	switch {
	case filterRootMutators[k], fd.Name.Name == "remove", fd.Name.Name == "removeOne":
		return "C13"
	case strings.HasPrefix(k, "Expr.Get") && k != "Expr.GetNodes", strings.HasPrefix(k, "Expr.First") && k != "Expr.FirstNode":
		return "C05"
	}
	return "C11"
}

func ruleTwinClauses(prog *Program, rep *Report, floor int, scope func(fd *ast.FuncDecl) bool) {
	rep.Rules = append(rep.Rules, "B-twins: in every function of package jp (reported under the property the function belongs to: Get / First - C05, the mutators and remove methods - C13, everything else - C11) the type-switch clause for []any and the one for gen.Array (and map[string]any / gen.Object) have the same index-selection fingerprint (integer assignments, integer tests, loop headers - container and element names normalised): the removal touches the same positions in both representations")
	pk := prog.Pkg("jp")
	if pk == nil {
		rep.Errorf("B-twins: package jp not loaded")
		return
	}
	info := pk.TypesInfo
	pairs := [][2]string{{"[]any", "gen.Array"}, {"map[string]any", "gen.Object"}}
	compared := 0
	for _, f := range pk.Syntax {
		if strings.HasSuffix(prog.Fset.Position(f.Pos()).Filename, "_test.go") {
			continue
		}
		for _, d := range f.Decls {
			fd, ok := d.(*ast.FuncDecl)
			if !ok || fd.Body == nil || (scope != nil && !scope(fd)) {
				continue
			}
			idx := 0
			ast.Inspect(fd.Body, func(n ast.Node) bool {
				ts, ok := n.(*ast.TypeSwitchStmt)
				if !ok {
					return true
				}
				as, ok := ts.Assign.(*ast.AssignStmt)
				if !ok || len(as.Lhs) != 1 {
					return true
				}
				contVar := as.Lhs[0].(*ast.Ident).Name
				clauses := map[string]*ast.CaseClause{}
				for _, cl := range ts.Body.List {
					cc := cl.(*ast.CaseClause)
					if len(cc.List) == 1 {
						clauses[types.ExprString(cc.List[0])] = cc
					}
				}
				idx++
				for _, p := range pairs {
					a, b := clauses[p[0]], clauses[p[1]]
					if a == nil || b == nil {
						continue
					}
					compared++
					fa := arithFingerprint(prog, pk, a, contVar)
					fb := arithFingerprint(prog, pk, b, contVar)
					key := fmt.Sprintf("jp.%s#%d:%s=%s", funcKey(fd), idx, p[0], p[1])
					if strings.Join(fa, "\n") == strings.Join(fb, "\n") {
						rep.Discharge("B-twins", key, prog.Pos(a.Pos()), fmt.Sprintf("%d fingerprint lines equal", len(fa)))
						continue
					}
					onlyA, onlyB := diffLines(fa, fb)
					if acc, ok := twinAccepted[key]; ok && strings.Join(onlyA, " | ") == acc[0] && strings.Join(onlyB, " | ") == acc[1] {
						rep.Discharge("B-twins", key, prog.Pos(a.Pos()), "accepted difference (read): "+acc[2])
						continue
					}
					rep.Violate(Finding{Rule: "B-twins", Key: key, Pos: prog.Pos(a.Pos()), Msg: fmt.Sprintf("%s treats %s and %s differently: only in the %s clause [%s]; only in the %s clause [%s]", funcKey(fd), p[0], p[1], p[0], strings.Join(onlyA, " | "), p[1], strings.Join(onlyB, " | "))})
				}
				_ = info
				return true
			})
		}
	}
	rep.Eval(compared)
	if compared < floor {
		rep.Errorf("B-twins compared %d clause pairs (floor %d): anchors did not resolve", compared, floor)
	}
}
