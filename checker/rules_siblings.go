package main

import (
	_ "embed"
	"fmt"
	"go/ast"
	"go/token"
	"go/types"
	"sort"
	"strings"
)

//go:embed jp_siblings.txt
var jpSiblingTable string

// the same classes computed with fingerprint lines that carry the side of the `last fragment?` test they sit on
// (a clamp moved into one branch leaves the class); fewer cross-evaluator classes survive this finer fingerprint,
// which is why both tables are kept
//
//go:embed jp_siblings_ctx.txt
var jpSiblingTableCtx string

var jpEvaluators = []string{"Get", "FirstFound", "Has", "set", "modify", "GetNodes", "FirstNode"}

var siblingContainers = map[string]bool{"preamble": true, "[]any": true, "gen.Array": true, "Indexed": true, "map[string]any": true, "gen.Object": true, "Keyed": true}

func baseCont(c string) string {
	if i := strings.Index(c, "#"); i >= 0 {
		return c[:i]
	}
	return c
}

type sibFP struct {
	id    string // eval/cont
	frag  string
	lines []string
	at    string
}

func jpFingerprints(prog *Program, withCtx bool) (map[string]map[string]sibFP, error) {
	fpWithCtx = withCtx
	defer func() { fpWithCtx = false }()
	cells, err := jpCells(prog, jpEvaluators)
	if err != nil {
		return nil, err
	}
	out := map[string]map[string]sibFP{} // frag -> id -> fp
	for _, c := range cells {
		id := c.Eval + "/" + c.Cont
		if out[c.Frag] == nil {
			out[c.Frag] = map[string]sibFP{}
		}
		if _, dup := out[c.Frag][id]; dup {
			continue
		}
		out[c.Frag][id] = sibFP{id: id, frag: c.Frag, lines: arithFingerprint(prog, prog.Pkg("jp"), c.Clause, c.ContVar), at: prog.Pos(c.Clause.Pos())}
	}
	return out, nil
}

// genSiblingTable prints the table of sibling classes found on the current
// tree (used once, when the table was frozen; see DESIGN.md Engine B).
func genSiblingTable(prog *Program, withCtx bool) (string, error) {
	fps, err := jpFingerprints(prog, withCtx)
	if err != nil {
		return "", err
	}
	var frags []string
	for f := range fps {
		frags = append(frags, f)
	}
	sort.Strings(frags)
	var sb strings.Builder
	for _, f := range frags {
		classes := map[string][]string{}
		for id, fp := range fps[f] {
			parts := strings.SplitN(id, "/", 2)
			if !siblingContainers[baseCont(parts[1])] || len(fp.lines) == 0 {
				continue
			}
			k := strings.Join(fp.lines, "\n")
			classes[k] = append(classes[k], id)
		}
		var rows []string
		pairs := [][2]string{{"FirstFound", "Has"}, {"Get", "GetNodes"}, {"FirstFound", "FirstNode"}}
		for k, ids := range classes {
			if len(ids) < 2 {
				continue
			}
			oneLine := len(strings.Split(k, "\n")) < 2
			sort.Strings(ids)
			byEval := map[string][]string{}
			for _, id := range ids {
				e := strings.SplitN(id, "/", 2)[0]
				byEval[e] = append(byEval[e], id)
			}
			// the copies of one evaluator for the different containers
			for _, m := range byEval {
				if len(m) >= 2 {
					rows = append(rows, f+"|"+strings.Join(m, "|"))
				}
			}
			// evaluators that are written as copies of each other
			for _, p := range pairs {
				if oneLine {
					continue // single-line fingerprints of different evaluators coincide by accident
				}
				if len(byEval[p[0]]) > 0 && len(byEval[p[1]]) > 0 {
					m := append(append([]string{}, byEval[p[0]]...), byEval[p[1]]...)
					rows = append(rows, f+"|"+strings.Join(m, "|"))
				}
			}
		}
		sort.Strings(rows)
		for _, r := range rows {
			sb.WriteString(r + "\n")
		}
	}
	return sb.String(), nil
}

func ruleSiblingArith(prog *Program, rep *Report, wantEval map[string]bool, ruleName string) {
	rep.Rules = append(rep.Rules, ruleName+": the cells of the JSONPath evaluators (evaluator x fragment kind x container type, located through the type switches over jp.Frag implementers and over the container value) are reduced to their index-selection fingerprint - assignments to int variables, for-loop headers, conditions over int variables/LEN, boolean resets, labelled branches, with len(c)/c.Size()/cached size -> LEN and the container variable normalised - and every class of cells that share one fingerprint in the frozen sibling table (copies for []any, gen.Array, Indexed / map, gen.Object, Keyed, and the evaluators that share traversal code) must still share one: a slip in one copy moves it out of its class")
	rows := 0
	for pass, table := range []string{jpSiblingTable, jpSiblingTableCtx} {
		fps, err := jpFingerprints(prog, pass == 1)
		if err != nil {
			rep.Errorf("%v", err)
			return
		}
		kp := ""
		if pass == 1 {
			kp = "ctx:"
		}
		for _, line := range strings.Split(strings.TrimSpace(table), "\n") {
			line = strings.TrimSpace(line)
			if line == "" || strings.HasPrefix(line, "#") {
				continue
			}
			parts := strings.Split(line, "|")
			frag, ids := parts[0], parts[1:]
			relevant := false
			for _, id := range ids {
				if wantEval[strings.SplitN(id, "/", 2)[0]] {
					relevant = true
				}
			}
			if !relevant {
				continue
			}
			rows++
			count := map[string][]string{}
			missing := false
			for _, id := range ids {
				fp, ok := fps[frag][id]
				if !ok {
					rep.Errorf("%s: sibling cell %s/%s no longer resolves (the sibling table must be regenerated and re-read)", ruleName, frag, id)
					missing = true
					continue
				}
				k := strings.Join(fp.lines, "\n")
				count[k] = append(count[k], id)
			}
			if missing {
				continue
			}
			key := kp + frag + ":" + strings.Join(ids, "=")
			if len(count) == 1 {
				rep.Discharge(ruleName, key, fps[frag][ids[0]].at, fmt.Sprintf("%d cells share one index-selection fingerprint (%d lines)", len(ids), len(fps[frag][ids[0]].lines)))
				continue
			}
			// majority class
			major, best := "", 0
			for k, m := range count {
				if len(m) > best {
					major, best = k, len(m)
				}
			}
			for k, members := range count {
				if k == major {
					continue
				}
				for _, id := range members {
					only, lack := diffLines(strings.Split(k, "\n"), strings.Split(major, "\n"))
					rep.Violate(Finding{Rule: ruleName, Key: kp + frag + ":" + id, Pos: fps[frag][id].at,
						Msg: fmt.Sprintf("cell %s/%s no longer selects indexes like its %d siblings (%s): it has %v where they have %v", frag, id, best, strings.Join(count[major], ", "), only, lack)})
				}
			}
		}
	}
	rep.Eval(rows)
	if rows < 5 {
		rep.Errorf("%s examined %d sibling classes (floor 5)", ruleName, rows)
	}
}

func diffLines(a, b []string) (onlyA, onlyB []string) {
	ma, mb := map[string]bool{}, map[string]bool{}
	for _, x := range a {
		ma[x] = true
	}
	for _, x := range b {
		mb[x] = true
	}
	for _, x := range a {
		if !mb[x] {
			onlyA = append(onlyA, x)
		}
	}
	for _, x := range b {
		if !ma[x] {
			onlyB = append(onlyB, x)
		}
	}
	return
}

// filterRootMutators: the functions of the mutation API (C13); every other function of jp belongs to the evaluators (C11).
var filterRootMutators = map[string]bool{"Expr.set": true, "Expr.modify": true, "Filter.remove": true, "Filter.removeOne": true, "Expr.MustRemove": true, "Expr.MustRemoveOne": true}

func init() {
	rules["C05"] = func(prog *Program, rep *Report) {
		rep.Explain("C05 decides sibling clauses of Expr.Get: for every fragment kind the index-selection fingerprint (bound normalisation, clamps, loop bounds and steps, resets) is the same in the copies for []any, gen.Array and Indexed (and for map, gen.Object, Keyed), as frozen in the sibling table from the pinned tree; the mixed-radix enumeration used by filters is checked by M-radix. Not covered: that the shared skeleton is the documented semantics (no oracle without executing), filter results, map order.")
		ruleSiblingArith(prog, rep, map[string]bool{"Get": true}, "B-get")
		ruleLoopFlag(prog, rep, "B-flag")
		ruleRadix(prog, rep)
		ruleAppendRetain(prog, rep, "jp")
		rulePresenceByNil(prog, rep)
		ruleIndexLE(prog, rep, "jp")
		ruleRoundGuard(prog, rep)
		ruleTruthMatrix(prog, rep) // "filter keeping the elements whose script is true"
		ruleOpArity(prog, rep)
		ruleFilterRoot(prog, rep, func(fn string) bool { return strings.HasPrefix(fn, "Expr.Get") || strings.HasPrefix(fn, "Expr.First") })
		ruleTwinClauses(prog, rep, 10, func(fd *ast.FuncDecl) bool { return twinScope(fd) == "C05" })
		rulePushPair(prog, rep, func(fd *ast.FuncDecl) bool { return twinScope(fd) == "C05" }, 5)
		ruleKindList(prog, rep, func(fd *ast.FuncDecl) bool { return twinScope(fd) == "C05" }, 10)
		ruleResultAlias(prog, rep, "jp")
		ruleOperandSet(prog, rep, 10, "jp")
		ruleSliceArray(prog, rep, 50, "jp")
		ruleIndexSync(prog, rep, 5, "jp")
		ruleCarry(prog, rep, 100, nil, "jp") // what a filter operand is evaluated against is chosen per operand
		ruleFullRange(prog, rep, 3, "jp")
		ruleArgConsist(prog, rep, 20, "jp")
	}
	rules["C11"] = func(prog *Program, rep *Report) {
		rep.Explain("C11 decides sibling clauses across evaluators and representations: the cells of Get, FirstFound, Has, GetNodes and FirstNode keep the index-selection fingerprints they share today across containers and across evaluators (e.g. Has and FirstFound select indexes identically for slices). Not covered: correctness of the shared skeleton, reflection lookup semantics, Locate/Walk normalised paths.")
		ruleSiblingArith(prog, rep, map[string]bool{"Get": true, "FirstFound": true, "Has": true, "GetNodes": true, "FirstNode": true}, "B-eval")
		ruleLoopFlag(prog, rep, "B-flag")
		ruleAppendRetain(prog, rep, "jp") // the reflection lookups build index paths level by level
		rulePresenceByNil(prog, rep)
		ruleIndexLE(prog, rep, "jp")
		ruleRoundGuard(prog, rep)
		ruleFilterRoot(prog, rep, func(fn string) bool { return !filterRootMutators[fn] })
		ruleTwinClauses(prog, rep, 20, func(fd *ast.FuncDecl) bool { return twinScope(fd) == "C11" })
		ruleNormalizeTwins(prog, rep)                                                              // gen data and simple data reach the operators in the same kinds
		rulePushPair(prog, rep, func(fd *ast.FuncDecl) bool { return twinScope(fd) != "C13" }, 10) // C11 is stated against Get, so Get's own copies count here too
		ruleKindList(prog, rep, func(fd *ast.FuncDecl) bool { return twinScope(fd) != "C13" }, 40)
		ruleFullRange(prog, rep, 3, "jp")
		ruleCarry(prog, rep, 100, nil, "jp")
		ruleSliceArray(prog, rep, 50, "jp")
		ruleIndexSync(prog, rep, 5, "jp")
		ruleArgConsist(prog, rep, 20, "jp") // the copies of one evaluator for the container types call their helpers with the same arguments
	}
	rules["C13"] = func(prog *Program, rep *Report) {
		rep.Explain("C13 decides sibling clauses of the mutators: the cells of set and modify keep the index-selection fingerprints they share across []any, gen.Array and Indexed (and map, gen.Object, Keyed): bound normalisation, guards such as 0 <= i && i < LEN, loop bounds, and the labelled break that stops the *One forms after the first change. The known divergence of modify/remove from Get on the slice end bound (inclusive) is pinned by jp/remove_test.go and recorded in KNOWN_FINDINGS.txt. Not covered: the frame condition on values, Set's created structure.")
		ruleSiblingArith(prog, rep, map[string]bool{"set": true, "modify": true}, "B-mutate")
		ruleC13Extra(prog, rep)
		ruleSliceBound(prog, rep)
		ruleFilterRoot(prog, rep, func(fn string) bool { return filterRootMutators[fn] })
		ruleResliceInput(prog, rep, "jp")
		rulePushPair(prog, rep, func(fd *ast.FuncDecl) bool { return twinScope(fd) == "C13" }, 2)
		ruleKindList(prog, rep, func(fd *ast.FuncDecl) bool {
			return twinScope(fd) == "C13" || fd.Name.Name == "descentAddValue" || fd.Name.Name == "stackAddValue"
		}, 5)
		ruleAppendRetain(prog, rep, "jp")
		rulePresenceByNil(prog, rep)
		ruleIndexLE(prog, rep, "jp")
		ruleFullRange(prog, rep, 3, "jp")
		ruleArgConsist(prog, rep, 20, "jp")
		ruleIndexSync(prog, rep, 5, "jp")
		ruleFlagConsist(prog, rep, 1, "jp") // the *One entries hand "stop after the first change" to the shared worker in every branch
	}
}

// ruleLoopFlag: a boolean declared outside a loop and assigned inside it must
// be definitely assigned in the iteration before a top-level `if <flag>` (or
// comma-ok consumer) of the loop body reads it; otherwise the test sees the
// value left by the previous iteration.
func ruleLoopFlag(prog *Program, rep *Report, ruleName string) {
	rep.Rules = append(rep.Rules, ruleName+": in package jp, a boolean variable that is declared outside a loop, assigned inside it, and tested by a statement of the loop body is definitely assigned earlier in the same iteration (must-assignment over if/else and switch with default): a found-flag that survives from the previous member or element duplicates or invents results")
	pk := prog.Pkg("jp")
	if pk == nil {
		return
	}
	info := pk.TypesInfo
	checked := 0
	for _, f := range pk.Syntax {
		for _, d := range f.Decls {
			fd, ok := d.(*ast.FuncDecl)
			if !ok || fd.Body == nil {
				continue
			}
			ast.Inspect(fd.Body, func(n ast.Node) bool {
				var body *ast.BlockStmt
				switch l := n.(type) {
				case *ast.RangeStmt:
					body = l.Body
				case *ast.ForStmt:
					body = l.Body
				default:
					return true
				}
				// candidates
				cands := map[types.Object]bool{}
				ast.Inspect(body, func(k ast.Node) bool {
					as, ok := k.(*ast.AssignStmt)
					if !ok || as.Tok == token.DEFINE {
						return true
					}
					for _, l := range as.Lhs {
						if id, ok := l.(*ast.Ident); ok {
							if v, ok := info.Uses[id].(*types.Var); ok {
								if b, isB := v.Type().Underlying().(*types.Basic); isB && b.Info()&types.IsBoolean != 0 {
									if !(body.Pos() <= v.Pos() && v.Pos() <= body.End()) && v.Parent() != pk.Types.Scope() {
										cands[v] = true
									}
								}
							}
						}
					}
					return true
				})
				// a latch is only ever assigned one constant inside the loop (once set it stays set): carried on purpose
				for v := range cands {
					vals := map[string]bool{}
					ast.Inspect(body, func(k ast.Node) bool {
						as, ok := k.(*ast.AssignStmt)
						if !ok {
							return true
						}
						for i, l := range as.Lhs {
							if id, ok := l.(*ast.Ident); ok && info.Uses[id] == types.Object(v) {
								if i < len(as.Rhs) && len(as.Lhs) == len(as.Rhs) {
									if tv := info.Types[as.Rhs[i]]; tv.Value != nil {
										vals[tv.Value.String()] = true
										continue
									}
								}
								vals["?"] = true
							}
						}
						return true
					})
					if len(vals) == 1 && !vals["?"] {
						delete(cands, v)
					}
				}
				if len(cands) == 0 {
					return true
				}
				assigned := map[types.Object]bool{}
				for _, st := range body.List {
					// does this statement test a candidate at its top level?
					var cond ast.Expr
					if is, ok := st.(*ast.IfStmt); ok && is.Init == nil {
						cond = is.Cond
						// `if flag { break }` / `{ return ... }`: leaving on true means a stale value can only be false
						if len(is.Body.List) == 1 && is.Else == nil {
							switch x := is.Body.List[0].(type) {
							case *ast.BranchStmt:
								if x.Tok == token.BREAK {
									cond = nil
								}
							case *ast.ReturnStmt:
								cond = nil
							}
						}
					}
					if cond != nil {
						ast.Inspect(cond, func(k ast.Node) bool {
							id, ok := k.(*ast.Ident)
							if !ok {
								return true
							}
							v, _ := info.Uses[id].(*types.Var)
							if v == nil || !cands[v] {
								return true
							}
							checked++
							key := fmt.Sprintf("jp.%s:flag:%s", funcKey(fd), v.Name())
							if assigned[v] {
								rep.Discharge(ruleName, key, prog.Pos(id.Pos()), "assigned earlier in the same iteration on every path")
							} else {
								rep.Violate(Finding{Rule: ruleName, Key: key + ":stale", Pos: prog.Pos(id.Pos()), Msg: fmt.Sprintf("the flag %s is tested in a loop iteration in which it may not have been assigned: it keeps the value of the previous iteration (a member that is absent is treated like the previous, present one)", v.Name())})
							}
							return true
						})
					}
					for o := range mustAssignLocals(info, []ast.Stmt{st}) {
						assigned[o] = true
					}
				}
				return true
			})
		}
	}
	if checked < 5 {
		rep.Errorf("%s examined %d flag tests (floor 5)", ruleName, checked)
	}
}

// mustAssignLocals: local variables definitely assigned by the statements on
// every path that falls through them.
func mustAssignLocals(info *types.Info, list []ast.Stmt) map[types.Object]bool {
	set := map[types.Object]bool{}
	addLhs := func(lhs []ast.Expr) {
		for _, l := range lhs {
			if id, ok := l.(*ast.Ident); ok {
				if o := info.Uses[id]; o != nil {
					set[o] = true
				}
				if o := info.Defs[id]; o != nil {
					set[o] = true
				}
			}
		}
	}
	inter := func(a, b map[types.Object]bool) map[types.Object]bool {
		out := map[types.Object]bool{}
		for k := range a {
			if b[k] {
				out[k] = true
			}
		}
		return out
	}
	for _, s := range list {
		switch x := s.(type) {
		case *ast.AssignStmt:
			addLhs(x.Lhs)
		case *ast.BlockStmt:
			for k := range mustAssignLocals(info, x.List) {
				set[k] = true
			}
		case *ast.IfStmt:
			if x.Init != nil {
				for k := range mustAssignLocals(info, []ast.Stmt{x.Init}) {
					set[k] = true
				}
			}
			if x.Else != nil {
				t := mustAssignLocals(info, x.Body.List)
				var e map[types.Object]bool
				switch eb := x.Else.(type) {
				case *ast.BlockStmt:
					e = mustAssignLocals(info, eb.List)
				default:
					e = mustAssignLocals(info, []ast.Stmt{eb})
				}
				for k := range inter(t, e) {
					set[k] = true
				}
			}
		case *ast.SwitchStmt, *ast.TypeSwitchStmt:
			var body *ast.BlockStmt
			if sw, ok := x.(*ast.SwitchStmt); ok {
				body = sw.Body
			} else {
				body = x.(*ast.TypeSwitchStmt).Body
			}
			hasDefault := false
			var acc map[types.Object]bool
			for _, c := range body.List {
				cc := c.(*ast.CaseClause)
				if cc.List == nil {
					hasDefault = true
				}
				m := mustAssignLocals(info, cc.Body)
				if acc == nil {
					acc = m
				} else {
					acc = inter(acc, m)
				}
			}
			if hasDefault {
				for k := range acc {
					set[k] = true
				}
			}
		}
	}
	return set
}
