package main

import (
	"fmt"
	"go/ast"
	"go/constant"
	"go/token"
	"go/types"
	"strings"
)

// N-hexfn: a hex-digit decoder written as a function of one byte (jp's path
// parser: readHex) is evaluated for each of the 256 byte values with the
// byte concrete. The body may use a tagged or tagless switch, if statements,
// assignments to the result and panic; expressions are folded with
// go/constant (byte arithmetic modulo 256). For the 22 hex digits the result
// must be the digit's value, for every other byte the function must panic
// (the parser's way of rejecting). Anything the little evaluator does not
// understand makes the check fail as undecided.

type miniOutcome struct {
	val     constant.Value
	panics  bool
	unknown string
}

type miniEnv struct {
	info *types.Info
	vars map[types.Object]constant.Value
}

func (e *miniEnv) expr(x ast.Expr) (constant.Value, string) {
	if tv, ok := e.info.Types[x]; ok && tv.Value != nil {
		return tv.Value, ""
	}
	switch t := ast.Unparen(x).(type) {
	case *ast.Ident:
		if o := e.info.Uses[t]; o != nil {
			if v, ok := e.vars[o]; ok {
				return v, ""
			}
		}
		return nil, "identifier " + t.Name
	case *ast.BinaryExpr:
		l, why := e.expr(t.X)
		if why != "" {
			return nil, why
		}
		if t.Op == token.LAND || t.Op == token.LOR {
			lb := constant.BoolVal(l)
			if (t.Op == token.LAND && !lb) || (t.Op == token.LOR && lb) {
				return constant.MakeBool(lb), ""
			}
			return e.expr(t.Y)
		}
		r, why := e.expr(t.Y)
		if why != "" {
			return nil, why
		}
		switch t.Op {
		case token.EQL, token.NEQ, token.LSS, token.LEQ, token.GTR, token.GEQ:
			return constant.MakeBool(constant.Compare(l, t.Op, r)), ""
		case token.ADD, token.SUB, token.MUL, token.AND, token.OR, token.XOR:
			v := constant.BinaryOp(l, t.Op, r)
			return e.wrap(v, e.info.TypeOf(t)), ""
		case token.SHL, token.SHR:
			s, _ := constant.Uint64Val(r)
			return e.wrap(constant.Shift(l, t.Op, uint(s)), e.info.TypeOf(t)), ""
		}
		return nil, "operator " + t.Op.String()
	case *ast.UnaryExpr:
		v, why := e.expr(t.X)
		if why != "" {
			return nil, why
		}
		if t.Op == token.NOT {
			return constant.MakeBool(!constant.BoolVal(v)), ""
		}
		return nil, "unary " + t.Op.String()
	case *ast.CallExpr:
		if tv, ok := e.info.Types[t.Fun]; ok && tv.IsType() && len(t.Args) == 1 {
			v, why := e.expr(t.Args[0])
			if why != "" {
				return nil, why
			}
			return e.wrap(v, tv.Type), ""
		}
		return nil, "call " + types.ExprString(t.Fun)
	}
	return nil, fmt.Sprintf("expression %T", x)
}

// wrap reduces an integer constant to the range of its (basic, unsigned 8-bit) type.
func (e *miniEnv) wrap(v constant.Value, t types.Type) constant.Value {
	if t == nil || v.Kind() != constant.Int {
		return v
	}
	b, ok := t.Underlying().(*types.Basic)
	if !ok {
		return v
	}
	switch b.Kind() {
	case types.Uint8:
		i, _ := constant.Int64Val(v)
		return constant.MakeInt64(int64(uint8(i)))
	case types.Int8:
		i, _ := constant.Int64Val(v)
		return constant.MakeInt64(int64(int8(i)))
	}
	return v
}

// run executes a statement list; done reports that the function returned or panicked.
func (e *miniEnv) run(list []ast.Stmt, result types.Object) (out miniOutcome, done bool) {
	for _, st := range list {
		switch s := st.(type) {
		case *ast.AssignStmt:
			if len(s.Lhs) != 1 || len(s.Rhs) != 1 {
				return miniOutcome{unknown: "multi-assignment"}, true
			}
			id, ok := s.Lhs[0].(*ast.Ident)
			if !ok {
				return miniOutcome{unknown: "assignment target"}, true
			}
			o := e.info.Defs[id]
			if o == nil {
				o = e.info.Uses[id]
			}
			var v constant.Value
			var why string
			switch s.Tok {
			case token.ASSIGN, token.DEFINE:
				v, why = e.expr(s.Rhs[0])
			default:
				return miniOutcome{unknown: "assignment operator " + s.Tok.String()}, true
			}
			if why != "" {
				return miniOutcome{unknown: why}, true
			}
			e.vars[o] = e.wrap(v, o.Type())
		case *ast.ReturnStmt:
			if len(s.Results) == 0 {
				if result == nil {
					return miniOutcome{unknown: "bare return without a named result"}, true
				}
				return miniOutcome{val: e.vars[result]}, true
			}
			v, why := e.expr(s.Results[0])
			if why != "" {
				return miniOutcome{unknown: why}, true
			}
			return miniOutcome{val: v}, true
		case *ast.ExprStmt:
			if call, ok := s.X.(*ast.CallExpr); ok {
				if id, ok := call.Fun.(*ast.Ident); ok && id.Name == "panic" {
					return miniOutcome{panics: true}, true
				}
			}
			return miniOutcome{unknown: "expression statement"}, true
		case *ast.IfStmt:
			if s.Init != nil {
				return miniOutcome{unknown: "if with init"}, true
			}
			c, why := e.expr(s.Cond)
			if why != "" {
				return miniOutcome{unknown: why}, true
			}
			if constant.BoolVal(c) {
				if o, d := e.run(s.Body.List, result); d {
					return o, true
				}
			} else if s.Else != nil {
				var l []ast.Stmt
				switch b := s.Else.(type) {
				case *ast.BlockStmt:
					l = b.List
				default:
					l = []ast.Stmt{b}
				}
				if o, d := e.run(l, result); d {
					return o, true
				}
			}
		case *ast.SwitchStmt:
			if s.Init != nil {
				return miniOutcome{unknown: "switch with init"}, true
			}
			var tag constant.Value
			if s.Tag != nil {
				v, why := e.expr(s.Tag)
				if why != "" {
					return miniOutcome{unknown: why}, true
				}
				tag = v
			}
			var chosen, deflt *ast.CaseClause
			for _, cl := range s.Body.List {
				cc := cl.(*ast.CaseClause)
				if cc.List == nil {
					deflt = cc
					continue
				}
				for _, ce := range cc.List {
					v, why := e.expr(ce)
					if why != "" {
						return miniOutcome{unknown: why}, true
					}
					if (tag != nil && constant.Compare(tag, token.EQL, v)) || (tag == nil && constant.BoolVal(v)) {
						chosen = cc
						break
					}
				}
				if chosen != nil {
					break
				}
			}
			if chosen == nil {
				chosen = deflt
			}
			if chosen != nil {
				if o, d := e.run(chosen.Body, result); d {
					return o, true
				}
			}
		default:
			return miniOutcome{unknown: fmt.Sprintf("statement %T", st)}, true
		}
	}
	return miniOutcome{}, false
}

func ruleHexFn(prog *Program, rep *Report) {
	rep.Rules = append(rep.Rules, "N-hexfn: jp's hex-digit decoder (parser.readHex), evaluated with the byte concrete for all 256 values (switches, ifs and constant-folded byte arithmetic), returns the digit's value for exactly the 22 hex digits and panics for every other byte: every \\\\xXX and \\\\uXXXX escape that AppendString writes decodes to the byte it encodes")
	pk := prog.Pkg("jp")
	if pk == nil {
		rep.Errorf("N-hexfn: package jp not loaded")
		return
	}
	fd, _ := prog.FuncDecl(Method(pk, "parser", "readHex"))
	if fd == nil || fd.Type.Params == nil || len(fd.Type.Params.List) != 1 || len(fd.Type.Params.List[0].Names) != 1 {
		rep.Errorf("N-hexfn: jp.parser.readHex(b byte) not found")
		return
	}
	info := pk.TypesInfo
	param := info.Defs[fd.Type.Params.List[0].Names[0]]
	var result types.Object
	if fd.Type.Results != nil && len(fd.Type.Results.List) == 1 && len(fd.Type.Results.List[0].Names) == 1 {
		result = info.Defs[fd.Type.Results.List[0].Names[0]]
	}
	bad := 0
	for b := 0; b < 256; b++ {
		env := &miniEnv{info: info, vars: map[types.Object]constant.Value{param: constant.MakeInt64(int64(b))}}
		if result != nil {
			env.vars[result] = constant.MakeInt64(0)
		}
		out, done := env.run(fd.Body.List, result)
		if !done && result != nil {
			out = miniOutcome{val: env.vars[result]}
		}
		want := -1
		switch {
		case '0' <= b && b <= '9':
			want = b - '0'
		case 'a' <= b && b <= 'f':
			want = b - 'a' + 10
		case 'A' <= b && b <= 'F':
			want = b - 'A' + 10
		}
		key := fmt.Sprintf("jp.parser.readHex:%s", byteName(b))
		switch {
		case out.unknown != "":
			rep.Errorf("N-hexfn: %s: undecided: %s", key, out.unknown)
			return
		case want < 0 && out.panics:
			rep.Discharge("N-hexfn", key, prog.Pos(fd.Pos()), "rejected")
		case want >= 0 && !out.panics && out.val != nil && constant.Compare(out.val, token.EQL, constant.MakeInt64(int64(want))):
			rep.Discharge("N-hexfn", key, prog.Pos(fd.Pos()), fmt.Sprintf("decodes to %d", want))
		default:
			bad++
			got := "panics"
			if !out.panics && out.val != nil {
				got = "returns " + out.val.ExactString()
			}
			w := "must be rejected"
			if want >= 0 {
				w = fmt.Sprintf("must decode to %d", want)
			}
			rep.Violate(Finding{Rule: "N-hexfn", Key: key, Pos: prog.Pos(fd.Pos()), Msg: fmt.Sprintf("readHex(%s) %s but %s: an escape the printer writes does not read back as the same byte", byteName(b), got, w)})
		}
	}
	rep.Eval(256)
}

// ruleFirstByte: G-jp-first. The printer writes a key bare when every byte of it is a token byte
// of tokenMap; the parser, reading the first fragment of a path, dispatches on the first byte
// before it consults that table ($ Root, @ At, . [ * ] structural). A byte that has its own case
// in that dispatch must therefore not be a token byte: a first key `$ref` printed bare would be
// read back as Root followed by `ref`.
func ruleFirstByte(prog *Program, rep *Report) {
	rep.Rules = append(rep.Rules, "G-jp-first: no byte that the path parser's fragment dispatch (parser.nextFrag) gives a case of its own is marked as a token byte in tokenMap: a key starting with such a byte is never printed bare at the head of a path")
	pk := prog.Pkg("jp")
	if pk == nil {
		rep.Errorf("G-jp-first: package jp not loaded")
		return
	}
	info := pk.TypesInfo
	var table string
	if o := pk.Types.Scope().Lookup("tokenMap"); o != nil {
		if c, ok := o.(*types.Const); ok && c.Val().Kind() == constant.String {
			table = constant.StringVal(c.Val())
		}
	}
	fd, _ := prog.FuncDecl(Method(pk, "parser", "nextFrag"))
	if len(table) < 256 || fd == nil {
		rep.Errorf("G-jp-first: tokenMap constant (%d bytes) or parser.nextFrag not found", len(table))
		return
	}
	var best *ast.SwitchStmt
	ast.Inspect(fd.Body, func(n ast.Node) bool {
		if sw, ok := n.(*ast.SwitchStmt); ok && sw.Tag != nil && (best == nil || len(sw.Body.List) > len(best.Body.List)) {
			best = sw
		}
		return true
	})
	if best == nil {
		rep.Errorf("G-jp-first: dispatch switch not found in parser.nextFrag")
		return
	}
	n := 0
	for _, cl := range best.Body.List {
		for _, e := range cl.(*ast.CaseClause).List {
			tv, ok := info.Types[e]
			if !ok || tv.Value == nil {
				continue
			}
			v, _ := constant.Int64Val(tv.Value)
			if v < 0 || v > 255 {
				continue
			}
			n++
			key := fmt.Sprintf("jp.tokenMap[%s]", byteName(int(v)))
			if table[v] == 'o' {
				rep.Violate(Finding{Rule: "G-jp-first", Key: key, Pos: prog.Pos(e.Pos()), Msg: fmt.Sprintf("byte %s has a case of its own in the fragment dispatch and is marked as a token byte: a first key starting with it is printed bare and read back as another fragment", byteName(int(v)))})
			} else {
				rep.Discharge("G-jp-first", key, prog.Pos(e.Pos()), "not a token byte")
			}
		}
	}
	rep.Eval(n)
	if n < 5 {
		rep.Errorf("G-jp-first examined %d dispatch bytes (floor 5)", n)
	}
}

// ruleClassEndpoints: G-endpoints. A byte is tested for membership in a character class with the
// class's own endpoints: `'0' <= b && b <= '9'` to accept, `b < '0' || '9' < b` to reject. A test
// that compares with an endpoint the other way round - `b <= '0'`, `'a' < b`, `b < 'f'`,
// `'9' <= b` - drops the endpoint itself from the class (exponent digits stop at the first 0,
// `f` is no hex digit, a field named `age` counts as exported).
func ruleClassEndpoints(prog *Program, rep *Report, rels ...string) {
	rep.Rules = append(rep.Rules, "G-endpoints: no comparison of a byte or rune with a character-class endpoint ('0' 'a' 'A' as lower, '9' 'f' 'z' 'F' 'Z' as upper endpoints) excludes the endpoint itself (x <= lo, lo < x, x >= hi, hi <= x, x < hi, hi > x and their mirrored spellings)")
	lows := map[int64]bool{'0': true, 'a': true, 'A': true}
	highs := map[int64]bool{'9': true, 'f': true, 'z': true, 'F': true, 'Z': true}
	n := 0
	for _, rel := range rels {
		pk := prog.Pkg(rel)
		if pk == nil {
			rep.Errorf("G-endpoints: package %s not loaded", rel)
			continue
		}
		info := pk.TypesInfo
		for _, f := range pk.Syntax {
			if strings.HasSuffix(prog.Fset.Position(f.Pos()).Filename, "_test.go") {
				continue
			}
			cnt := map[string]int{}
			ast.Inspect(f, func(k ast.Node) bool {
				be, ok := k.(*ast.BinaryExpr)
				if !ok {
					return true
				}
				op := be.Op
				if op != token.LSS && op != token.LEQ && op != token.GTR && op != token.GEQ {
					return true
				}
				lit := func(e ast.Expr) (int64, bool) {
					bl, ok := ast.Unparen(e).(*ast.BasicLit)
					if !ok || bl.Kind != token.CHAR {
						return 0, false
					}
					tv, ok := info.Types[e]
					if !ok || tv.Value == nil {
						return 0, false
					}
					v, ok := constant.Int64Val(tv.Value)
					return v, ok
				}
				// normalise to  x OP lit
				v, isR := lit(be.Y)
				if !isR {
					lv, isL := lit(be.X)
					if !isL {
						return true
					}
					v = lv
					switch op {
					case token.LSS:
						op = token.GTR
					case token.GTR:
						op = token.LSS
					case token.LEQ:
						op = token.GEQ
					case token.GEQ:
						op = token.LEQ
					}
				}
				if !lows[v] && !highs[v] {
					return true
				}
				n++
				bad := (lows[v] && (op == token.LEQ || op == token.GTR)) || (highs[v] && (op == token.GEQ || op == token.LSS))
				if bad {
					fn := enclosingFuncName(f, be.Pos())
					base := fmt.Sprintf("%s.%s:%s", rel, fn, strings.ReplaceAll(types.ExprString(be), " ", ""))
					cnt[base]++
					rep.Violate(Finding{Rule: "G-endpoints", Key: fmt.Sprintf("%s#%d", base, cnt[base]), Pos: prog.Pos(be.Pos()), Msg: fmt.Sprintf("%s tests %s: the endpoint %q itself falls on the wrong side of the class", fn, types.ExprString(be), rune(v))})
				}
				return true
			})
		}
	}
	rep.Eval(n)
	rep.Discharge("G-endpoints", strings.Join(rels, ","), strings.Join(rels, ","), fmt.Sprintf("%d endpoint comparisons examined", n))
	if n < 4 {
		rep.Errorf("G-endpoints examined %d endpoint comparisons (floor 4)", n)
	}
}
