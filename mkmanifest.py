#!/usr/bin/env python3
# Regenerates MANIFEST.json from the tables below (kept in one place so that the
# claim list, the not_applicable list and the commands cannot drift apart).
import json

CLAIMS = {}      # id -> dict(text, note, technique, design_ref)
NA = {}          # id -> reason

def claim(pid, text, note, technique, ref):
    CLAIMS[pid] = dict(text=text, note=note, technique=technique, ref=ref)

exec(open('/verif/claims.py').read())

props = [json.loads(l)['id'] for l in open('/verif/properties.jsonl')]
m = {
 "version": 1,
 "setup_cmd": "cd /verif/checker && GOFLAGS=-mod=mod GOPROXY=off GOSUMDB=off GOTOOLCHAIN=local GOWORK=off go build -o /verif/bin/ojgcheck .",
 "hooks": {
  "guard": "verif",
  "enable": "none needed: the checks analyse /repo's sources (go/packages, go/types, go/ssa, go/cfg); nothing is instrumented, no build tag is used",
  "baseline_off_cmd": "cd /repo && GOFLAGS=-mod=mod go test -vet=off -count=1 ./...",
  "source_commits": [],
  "add_only": True
 },
 "engines": [
  {"name": "ojgcheck", "path": "/verif/checker", "serves_properties": sorted(CLAIMS), "kind_free_text": "repository-specific static analyser: mode-table machine extraction + product exploration against an RFC 8259 reference, sibling cross-checking, dominance / def-use / lockset rules over go/types, go/cfg and go/ssa"}
 ],
 "checks": [],
 "not_applicable": [],
 "notes": "All checks decide from /repo's current source on every run (go/packages load, no cache). Exit 0 = rule set quiet (known findings printed as KNOWN-FINDING), 1 = VIOLATION, 2 = ERROR (checker could not decide; fail closed)."
}
for pid in props:
    if pid in CLAIMS:
        c = CLAIMS[pid]
        m["checks"].append({
          "property_id": pid,
          "quick_cmd": "bin/ojgcheck -prop %s -tier quick" % pid,
          "thorough_cmd": "bin/ojgcheck -prop %s -tier thorough" % pid,
          "evidence_file": "/verif/evidence/%s.json" % pid,
          "replay_cmd_template": "cat {path}",
          "engine": "ojgcheck",
          "level_claimed": {"category": "other", "text": c["text"], "design_ref": c["ref"]},
          "level_note": c["note"],
          "technique": c["technique"],
        })
    else:
        m["not_applicable"].append({"property_id": pid, "reason": NA.get(pid, "static rule designed (DESIGN.md) but not built; nothing is claimed until the rule is implemented, quiet and armed")})
json.dump(m, open('/verif/MANIFEST.json', 'w'), indent=1)
print("claimed:", sorted(CLAIMS), "n/a:", [p for p in props if p not in CLAIMS])
