#!/usr/bin/env python3
"""Installs confirmed seeded changes of one round into /verif/seeded.

usage: seedinstall.py <round> <verify-log>
  <verify-log>: the output lines of seedverify.sh (SEEDOUT=/tmp/seedout<round>) - only changes whose line says
  applies=yes build_errors=0 suite_failures=0 demo_clean=ok demo_mutant=FAIL are installed, as
  seeded/<Cnn>-r<round>m<k>/ with patch.diff, the demonstration (renamed *.txt so that it is not compiled),
  notes.md and meta.json."""
import glob, json, os, re, shutil, sys

rnd, log = sys.argv[1], sys.argv[2]
titles = {}
for l in open('/verif/properties.jsonl'):
    d = json.loads(l)
    titles[d['id']] = d['title']
n = 0
for line in open(log):
    m = re.match(r'(C\d\d) m(\d) applies=yes build_errors=(\d+) suite_failures=(\d+) demo_clean=(\S+) demo_mutant=(\S+) pkg=(\S+) run=\'([^\']*)\'(.*)', line.strip())
    if not m:
        if line.strip():
            print('skip:', line.strip())
        continue
    pid, k, be, sf, clean, mut, pkg, run, rest = m.groups()
    if be != '0' or sf != '0' or clean != 'ok' or mut not in ('FAIL', 'panic:'):
        print('not confirmed:', line.strip())
        continue
    src = f'/tmp/seedout{rnd}/{pid}/m{k}'
    sid = f'{pid}-r{rnd}m{k}'
    dst = f'/verif/seeded/{sid}'
    os.makedirs(dst, exist_ok=True)
    shutil.copy(src + '/patch.diff', dst + '/patch.diff')
    shutil.copy(src + '/notes.md', dst + '/notes.md')
    demos = []
    for f in glob.glob(src + '/*.go'):
        shutil.copy(f, dst + '/' + os.path.basename(f) + '.txt')
        demos.append(os.path.basename(f) + '.txt')
    notes = open(src + '/notes.md', errors='replace').read()
    meta = {
        'id': sid, 'property': pid, 'property_title': titles[pid], 'round': int(rnd),
        'origin': f'round {rnd} (held out): written by a fresh sub-agent that saw only the property text, a list of the lines earlier seeded changes of this property touched (to avoid repeats) and a scratch worktree of /repo at the repaired HEAD (nothing from /verif)',
        'change': 'see patch.diff and notes.md (first lines): ' + ' '.join(notes.split())[:260],
        'demonstration': {'file': demos, 'place_in': f'{pkg} (rename to *_test.go)', 'command': f'go test -count=1 {run} ./{pkg}'.replace('//', '/') + rest.rstrip()},
        'confirmed': {'how': 'seedverify.sh in a scratch git worktree of /repo HEAD (removed afterwards): patch applies; go build ./... clean; unedited `go test -vet=off -count=1 ./...` all ok with the patch; demonstration ok without the patch and FAIL with it',
                      'build_errors': 0, 'suite_failures_with_change': 0, 'demo_without_change': clean, 'demo_with_change': mut},
    }
    json.dump(meta, open(dst + '/meta.json', 'w'), indent=1)
    n += 1
print('installed', n)
