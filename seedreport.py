#!/usr/bin/env python3
"""Summarise the seed matrix.

Reads /tmp/mxv/<seed-id>/<Cnn>.log written by seedmatrix.sh (the final run with the committed checks),
fills seeded/<id>/meta.json (detected_by, own_property_check_fires) and prints DESIGN.md section 7.2:
one table per round, the summary lines, and for round 3 the first-run (held-out) numbers kept in
seeded/round3_first_run.json together with which round-3 changes repeat an earlier one."""
import glob, json, os, re, sys
root = sys.argv[1] if len(sys.argv) > 1 else '/tmp/mxv'

def rnd(sid):
    m = re.search(r'-r(\d+)m', sid)
    return int(m.group(1)) if m else 1

def patch_sig(p):
    files, lines = set(), set()
    for l in open(p, errors='replace'):
        if l.startswith('+++ b/'):
            files.add(l[6:].strip())
        elif (l.startswith('+') or l.startswith('-')) and not l.startswith('+++') and not l.startswith('---'):
            t = l[1:].strip()
            if len(t) > 8:
                lines.add((l[0], t))
    return files, lines

sigs = {os.path.basename(d): patch_sig(d + '/patch.diff') for d in glob.glob('/verif/seeded/C*') if os.path.isdir(d)}
repeats = {}
for s, (f, l) in sigs.items():
    r = [t for t, (f2, l2) in sigs.items() if rnd(t) < rnd(s) and (f & f2) and (l & l2)]
    if r:
        repeats[s] = sorted(r)

earlier = json.load(open('/verif/seeded/earlier_runs.json'))
rows = []
for sid in sorted(sigs):
    d = os.path.join(root, sid)
    prop = sid.split('-')[0]
    det, ran = {}, []
    # results of the previous complete matrix are kept in meta.json; checks re-run since then (logs under root) override them
    mp0 = f'/verif/seeded/{sid}/meta.json'
    m0 = json.load(open(mp0))
    if isinstance(m0.get('detected_by'), dict):
        det = dict(m0['detected_by'])
    ran = list(m0.get('checks_run_in_final_matrix', []))
    for lg in sorted(glob.glob(os.path.join(d, 'C*.log'))):
        p = os.path.basename(lg)[:-4]
        if p not in ran:
            ran.append(p)
        det.pop(p, None)
        txt = open(lg, errors='replace').read()
        if 'VIOLATION property=' in txt:
            det[p] = sorted(set(re.findall(r'rule=([A-Za-z0-9/_-]+)', txt)))
        elif 'ERROR property=' in txt:
            det[p] = ['(undecided: fail closed)']
    # checks that were not re-run in the final matrix: result of the earlier run of the same check (marked with a dagger)
    old = {p: r for p, r in earlier.get(sid, {}).get('fired', {}).items() if p not in ran}
    rows.append((sid, prop, det, ran, old))
    mp = f'/verif/seeded/{sid}/meta.json'
    m = json.load(open(mp))
    if ran:
        m['detected_by'] = det if det else 'no check'
        m['checks_run_in_final_matrix'] = sorted(ran)
        m['fired_in_an_earlier_run_not_repeated'] = old
        m['own_property_check_fires'] = prop in det
        if sid in repeats:
            m['repeats_change_of'] = repeats[sid]
        json.dump(m, open(mp, 'w'), indent=1)

def table(r):
    print('| seed | own property check | rules that fire under the own property | checks of other properties that also fire |')
    print('|---|---|---|---|')
    for sid, prop, det, ran, old in rows:
        if rnd(sid) != r:
            continue
        if not ran:
            print(f'| {sid} | (not run) | | |')
            continue
        o = ', '.join(det.get(prop, [])) or '**none**'
        others = '; '.join([f'{p}: {", ".join(x)}' for p, x in det.items() if p != prop] + [f'{p}\u2020: {", ".join(x)}' for p, x in sorted(old.items()) if p != prop]) or '-'
        rep = f' (repeats {", ".join(repeats[sid])})' if sid in repeats else ''
        print(f'| {sid}{rep} | {"fires" if prop in det else "**quiet**"} | {o} | {others} |')
    sel = [x for x in rows if rnd(x[0]) == r and x[3]]
    own = sum(1 for x in sel if x[1] in x[2])
    anyc = sum(1 for x in sel if x[2])
    print()
    print(f'Round {r}: {own} of {len(sel)} changes are reported by the check of the property they were written against, {anyc} of {len(sel)} by at least one check (final checks).')
    print()

for r in (1, 2, 3, 4, 5, 6, 7, 8, 9):
    print(f'#### Round {r}\n')
    table(r)

fr = json.load(open('/verif/seeded/round3_first_run.json'))
own = sum(1 for v in fr.values() if v['own_property_check_fired'])
anyc = sum(1 for v in fr.values() if v['fired'])
novel = [s for s in fr if s not in repeats]
own_n = sum(1 for s in novel if fr[s]['own_property_check_fired'])
any_n = sum(1 for s in novel if fr[s]['fired'])
print('#### Round 3 as first run (held out)\n')
print(f'First run of the checks as they stood when round 3 was delivered: {own} of {len(fr)} reported by the own property\'s check, {anyc} of {len(fr)} by some check. '
      f'{len(fr) - len(novel)} of the 40 changes repeat a change of round 1 or 2 (same file, at least one identical changed line - the sub-agents do not know of each other and converge on the same slips); '
      f'of the {len(novel)} that do not, {own_n} were reported by the own property\'s check and {any_n} by some check on that first run.')
missed = sorted(s for s in fr if not fr[s]['fired'])
print(f'Not reported by any check on the first run: {", ".join(missed)}.')

for rn in (4, 5, 6, 7, 8, 9):
    fN = f'/verif/seeded/round{rn}_first_run.json'
    if not os.path.exists(fN):
        continue
    fr = json.load(open(fN))
    own = sum(1 for v in fr.values() if v['own_property_check_fired'])
    anyc = sum(1 for v in fr.values() if v['fired'])
    novel = [s for s in fr if s not in repeats]
    own_n = sum(1 for s in novel if fr[s]['own_property_check_fired'])
    any_n = sum(1 for s in novel if fr[s]['fired'])
    print(f'\n#### Round {rn} as first run (held out)\n')
    print(f'First run of the checks as they stood when round {rn} was delivered: {own} of {len(fr)} reported by the own property\'s check, {anyc} of {len(fr)} by some check that was run. '
          f'{len(fr) - len(novel)} of the {len(fr)} changes repeat an earlier change although the agents were told which lines had been used; '
          f'of the {len(novel)} that do not, {own_n} were reported by the own property\'s check and {any_n} by some check on that first run.')
    missed = sorted(s for s in fr if not fr[s]['fired'])
    print(f'Not reported by any check on the first run: {", ".join(missed)}.')
    mo = sorted(s for s in fr if fr[s]['fired'] and not fr[s]['own_property_check_fired'])
    print(f'Reported only by the check of another property: {", ".join(mo)}.')
