#!/usr/bin/env python3
"""Summarise the seed matrix: reads /tmp/mxv/<Cnn>_<k>/<Cmm>.log written by seedmatrix.sh,
fills seeded/<id>/meta.json detected_by and prints the markdown table for DESIGN.md section 7."""
import glob, json, os, re, sys
root = sys.argv[1] if len(sys.argv) > 1 else '/tmp/mxv'
rows = []
for d in sorted(glob.glob(os.path.join(root, 'C*-*'))):
    sid = os.path.basename(d)
    prop = sid.split('-')[0]
    if not os.path.isdir(f'/verif/seeded/{sid}'):
        continue
    det = {}
    for lg in sorted(glob.glob(os.path.join(d, 'C*.log'))):
        p = os.path.basename(lg)[:-4]
        txt = open(lg, errors='replace').read()
        if 'VIOLATION property=' not in txt and 'ERROR property=' not in txt:
            continue
        rules = sorted(set(re.findall(r'rule=([A-Za-z0-9/_-]+)', txt)))
        if not rules and 'ERROR property=' in txt:
            rules = ['(checker error: fail closed)']
        det[p] = rules
    rows.append((sid, prop, det))
    mp = f'/verif/seeded/{sid}/meta.json'
    m = json.load(open(mp))
    m['detected_by'] = {p: r for p, r in det.items()} if det else "no check"
    m['own_property_check_fires'] = prop in det
    json.dump(m, open(mp, 'w'), indent=1)
print('| seed | own property | rules that fire (own property) | other properties whose check also fires |')
print('|---|---|---|---|')
own = 0
for sid, prop, det in rows:
    o = ', '.join(det.get(prop, [])) or '**none**'
    others = '; '.join(f'{p}: {", ".join(r)}' for p, r in det.items() if p != prop) or '-'
    if prop in det:
        own += 1
    print(f'| {sid} | {"yes" if prop in det else "NO"} | {o} | {others} |')
print()
print(f'{own} of {len(rows)} seeded changes are reported by the check of the property they were written against; '
      f'{sum(1 for _,_,d in rows if d)} of {len(rows)} by at least one check.')
