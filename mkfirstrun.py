#!/usr/bin/env python3
"""usage: mkfirstrun.py <round> <mxv-dir>  -- records the first (held-out) run of a round's seeded changes:
reads <mxv-dir>/<seed-id>/<Cnn>.log written by seedmatrix.sh and writes seeded/round<round>_first_run.json."""
import glob, json, os, re, sys
rnd, root = sys.argv[1], sys.argv[2]
out = {}
for d in sorted(glob.glob(f'{root}/C*-r{rnd}m*')):
    sid = os.path.basename(d)
    prop = sid.split('-')[0]
    fired, ran = {}, []
    for lg in sorted(glob.glob(d + '/C*.log')):
        p = os.path.basename(lg)[:-4]
        ran.append(p)
        txt = open(lg, errors='replace').read()
        if 'VIOLATION property=' in txt:
            fired[p] = sorted(set(re.findall(r'rule=([A-Za-z0-9/_-]+)', txt)))
        elif 'ERROR property=' in txt:
            fired[p] = ['(undecided: fail closed)']
    out[sid] = {'checks_run': ran, 'fired': fired, 'own_property_check_fired': prop in fired}
json.dump(out, open(f'/verif/seeded/round{rnd}_first_run.json', 'w'), indent=1)
own = sum(1 for v in out.values() if v['own_property_check_fired'])
print(len(out), 'seeds; own', own, 'any', sum(1 for v in out.values() if v['fired']))
print('missed by all:', [s for s, v in out.items() if not v['fired']])
print('missed by own:', [s for s, v in out.items() if not v['own_property_check_fired']])
