claim("C01",
 "Static decision of the accept language: the dispatch loops of oj.Parser, oj.Validator, oj.Tokenizer and gen.Parser are extracted from the source (mode tables as compile-time constants, switch arms by finite-domain abstract interpretation, fast paths and class scans followed exactly) and explored in product with an independent RFC 8259 automaton to a fixpoint, for all inputs of all lengths and every chunking; plus the BOM preamble rule. This is 'other': an exhaustive static comparison of an extracted model with a reference, not a proof about the compiled code.",
 "Trusted: go/parser+go/types, the abstract interpreter's reading of Go statement semantics, the reference automaton (unit-tested against encoding/json), the assumption that callbacks do not mutate the parser. Undecidable arm shapes make the check exit 2 (ERROR), never pass.",
 "static analysis: table-driven machine extraction + abstract interpretation of switch arms + product fixpoint against an RFC 8259 reference automaton",
 "DESIGN.md §3 Engine A, §4 C01")
claim("C03",
 "Static decision of front-end agreement as acceptors and event sources under every chunking: the four JSON dispatch loops are explored in product with one reference automaton in single- and multi-document mode (agreement with a common reference implies pairwise agreement), with a buffer refill allowed between any two bytes and every length-guarded fast path explored both ways; value/token events must be emitted at the same byte with the same kind. For sen.Parser/sen.Tokenizer the structural sibling clause 'no action code without a case' is decided. Equality of value trees is not decided (values are outside the abstract domain). The SEN front-ends are decided in three further views: as a superset of the JSON reference (A-subset), each in product with itself under arbitrary versus one-byte chunking (A-senchunk: verdicts, containers and the sequence of observable operations agree for every chunking of SEN-only syntax too), and parser against tokenizer under one-byte chunking with an under-approximated 'can still accept' analysis (A-sencross); the []byte and reader entries must reject the same first bytes in their preamble (A-preamble).",
 "Trusted: as C01. Known findings are listed in KNOWN_FINDINGS.txt by key: sen.Tokenizer lacks arms for ( ) + and C comments (18 cells); sen.Parse/Tokenize reject a leading 0xEF that is not a BOM while the reader entries parse it (2, pinned by the suite). A-sencross can miss a divergence that exists only below two levels of nesting; value trees are not compared.",
 "static analysis: machine extraction + product fixpoint with chunking non-determinism; event-synchrony comparison; dispatch-switch exhaustiveness over reachable table cells",
 "DESIGN.md §3 Engine A, §4 C03")
claim("C06",
 "Static decision of the panic surface visible in the control state of the six table-driven front-ends (out-of-range index of a constant string or the container stack, buffer slice beyond len(buf), pop of an empty stack, endless re-dispatch, missing arm) for every reachable state and byte, plus call-graph / dominance lints for the other entry points (recover frames, unchecked type assertions). A necessary condition of C06, not the whole property: general index/nil safety over runtime data is out of reach.",
 "Trusted: as C01; SEN front-ends are explored alone with over-approximated reachability. Explicit panic(...) is treated as a thrown error and checked by the recover-frame rule.",
 "static analysis: abstract interpretation of dispatch arms to a reachability fixpoint; call-graph recover-frame reachability; dominance lint for unchecked assertions",
 "DESIGN.md §3 Engines A and E, §4 C06")
claim("C07",
 "Static decision of read-before-reset for the control state of the six reusable front-ends: entries are interpreted from an all-stale state and the exploration reports any read of a stale control field or container stack on any machine path; plus reset-completeness rules for other carried fields. A necessary condition of 'behaves like a fresh instance'; behavioural equality itself is not decided.",
 "Trusted: as C01. Fields kept as Top by the machine (scratch buffers, number parts) are covered by the def-use rules, not by the exploration.",
 "static analysis: abstract interpretation from a stale initial state (definite assignment along machine paths); field def/use reset-completeness",
 "DESIGN.md §3 Engines A and C, §4 C07")
claim("C09",
 "Static decision of the structural facts the reported position depends on: every in-loop error passes the cursor of the dispatched byte and is raised exactly where the reference dies; the cursor is exactly len(buf) whenever a buffer can end inside an arm; newline bytes update line/offset bookkeeping; reader loops rebase the newline offset by the consumed length. Column arithmetic beyond these facts is not decided.",
 "Trusted: as C01.",
 "static analysis: cursor tracking (off0+c+K) in the arm interpreter; product synchrony with the reference for 'first dead byte'; dominance rules on reader loops",
 "DESIGN.md §3 Engine A, §4 C09")
claim("C04",
 "Static decision of structural clauses of 'writers emit valid JSON': string escaping is total and exact per byte against RFC 8259 section 7 for both HTML-safe settings (the loop body of ojg.AppendJSONString is interpreted with the byte concrete and the escape table as a constant: 512 cells, exhaustive), plus the further writer rules listed in the evidence. Parse-back equality, number formatting and pretty layout are not decided.",
 "Trusted: go/types constant evaluation, the interpreter's reading of the loop body, utf8.DecodeRuneInString for bytes >= 0x80 (the UTF-8 arm is only required to have a U+FFFD path).",
 "static analysis: per-byte abstract interpretation of the escaping loop against an RFC 8259 section 7 specification table",
 "DESIGN.md §3 Engine G, §4 C04")
claim("C08",
 "Static decision of the ownership and locking shape that concurrent use relies on: no use of a pooled object after Put (SSA reachability), no package-level function returns memory owned by a pooled or caller-supplied Writer (SSA ownership propagation through field loads, reslices, phi and owning methods), package-level maps are immutable after init / written only by their registration API / accessed under the package mutex (lockset over the intra-package call graph). A necessary condition of race freedom, not race freedom. Also: the container kinds unwrapped when a Recomposer registers a type cover the kinds recomposition descends through (R-prereg: no lazy registration, i.e. no map write, during a shared Recompose), and entry parity of the pooled reusable types (state an entry does not reset is shared between callers).",
 "Trusted: go/ssa construction; ownership is tracked within a function plus method summaries (no general pointer analysis is available); registration APIs (jp.Register*Function, asm.Define) are configuration outside the concurrent call set.",
 "static analysis: SSA ownership/escape propagation, use-after-Put reachability, lockset with lock-held-on-entry fixpoint",
 "DESIGN.md §3 Engine D, §4 C08")
claim("C10",
 "Static decision of writer/reader table agreement for SEN strings: for each byte and HTML-safe setting the quoting/escaping decision of ojg.AppendSENString (loop body interpreted with the byte concrete) is compared with the SEN reader's start, token, string, escape and decode tables, whose roles are identified from the sen.Parser dispatch loop; reserved spellings must be compared against by the writer. Whole-tree equality, numbers and time options are not decided. A first byte that a []byte entry rejects in its preamble (0xEF, taken for a byte order mark) must force quotes.",
 "Trusted: as C04. Known findings ('+', '-' first bytes and null/true/false written bare; pinned by the unedited test suite) are listed in KNOWN_FINDINGS.txt.",
 "static analysis: per-byte abstract interpretation of the writer vs constant reader tables (table agreement)",
 "DESIGN.md §3 Engine G, §4 C10")
claim("C02",
 "Static decision of structural clauses of 'values denote the text': no decimal accumulator update can wrap around (bound analysis with exact big-integer arithmetic on the guarding constants, including the borrowed Frac < Div invariant), escape and \\u tables are exact against RFC 8259 section 7 and every hex arm adds the digit's value (arm interpreted per digit), surrogate handling is present, and value/token events agree with the reference. The numeric value of results, AsNum's representation choice and decoded string contents beyond the tables are not decidable statically here and are not claimed. N-mirror: for every step inside a number the dispatched byte is added to the text buffer used for numbers that outgrow the accumulators, or the step is on the buffer-is-empty branch (JSON front-ends, and SEN front-ends on JSON numbers).",
 "Trusted: as C01. Known findings (no surrogate pairing in five front-ends) are listed in KNOWN_FINDINGS.txt. Found by probing, outside static reach and pinned by the test suite: the parsers' fast path returns 9223372036854775807 as json.Number/Big.",
 "static analysis: guard-dominance bound analysis on multiply-accumulate sites, constant-table comparison against RFC 8259 section 7, per-digit abstract interpretation of the \\u arm, product event synchrony",
 "DESIGN.md §4 C02")
claim("C12",
 "Static decision of the exact truth table of the filter operators ==, !=, <, <=, >, >=, &&, ||, !, has, exists: each operator arm is evaluated abstractly over kind(left) x kind(right) x order (1000+ cells, exhaustive, with Go's interface-equality rule including the PANIC outcome for uncomparable operands) and compared with the documented semantics; plus operator-table consistency and the mixed-radix enumeration of multi-valued operands. Multi-value expansion semantics, Match vs filter membership, regex and arithmetic are not decided. The matrix includes gen.Array and gen.Object operands (uncomparable named types that a `case []any` does not match); M-presence keeps a null member from being read as Nothing.",
 "Trusted: the specification matrix in rules_c12.go written from the property statement; float64(int) assumed order preserving; operands outside the nine kinds are not modelled.",
 "static analysis: finite abstract evaluation of operator arms over an operand-kind matrix",
 "DESIGN.md §4 C12")
claim("C14",
 "Static decision of structural clauses of the path/script text round trip: every escape jp.AppendString can emit (per byte, per delimiter, 512 cells) is one the path parser's escape reader accepts and decodes to the same byte; Child.Append's dot-form predicate and the parser's dot-token readers consult the same table constant and class code; no dereference of a sibling operand under the other operand's nil guard. Precedence/evaluation equivalence of print and re-parse is not decided. P-elide: a number is omitted from the printed slice only under an equality test with its default. P-prec: every comparison of an operator's precedence with its right child's - in the parser's correction and in the printer's parenthesis arguments - is the same relation.",
 "Trusted: as C04; the escape reader is identified structurally (switch with cases for 'u' and 'n').",
 "static analysis: per-byte abstract interpretation of the writer vs the parser's escape case table; table-identity check; guard/dereference consistency lint",
 "DESIGN.md §4 C14")
claim("C15",
 "Static decision of structural clauses of 'all encoders agree on a Go value': no per-field decision leaks between fields of a struct-field loop (K-loop), the three field-plan builders of each encoder patch the same plan fields when promoting embedded structs (K-embed, sibling feature vectors), every float formatting call uses the bit size of the value's type (K-floatbits, type-driven), and the plain and omit-empty plan caches are filled in exclusive branches (K-cache). The encoded tree itself and encoding/json parity are not decided. K-embed compares field, assignment operator and value of every patch applied to promoted fields; entry parity of the two Writer types (a reused writer that keeps the previous stream splits the text).",
 "Trusted: go/types; K-embed compares siblings with each other (majority of three per package), so a slip copied into all three is invisible to it.",
 "static analysis: loop-carried assignment lint, sibling feature-vector comparison, type-driven argument check, branch-exclusivity check",
 "DESIGN.md §4 C15")
claim("C16",
 "Static decision of the history-independence clause and of structural necessary conditions of the inverse property: registry lookups under keys derived from reflect.Type.Name() verify the composer's type, nothing is registered under an empty name, loops over struct fields visit every index, the per-element target of the recursive recompose call is fresh in each iteration, float64 values are formatted with 64 bits. Inverse-ness of Decompose/Recompose and Marshal/Unmarshal for arbitrary types is not decidable statically and is not claimed. Also K-embed (Marshal reads promoted fields through the plan's offsets), R-prereg (no lazy registration) and A-appendretain in alt.",
 "Trusted: go/types; the lossy-key rule is specific to package alt's map[string]*composer registries.",
 "static analysis: def-use tracking of lossy keys with required identity comparison; loop-bound and loop-freshness lints; type-driven argument check",
 "DESIGN.md §4 C16")
claim("C19",
 "Static decision of structural clauses of Diff/Compare/Match: one shared implementation whose early exits only follow a recorded difference (Compare nil iff Diff empty), both operands' keys reach the comparison in the map case, a length difference is recorded in the slice case, ignore tests precede recording, numeric widening helpers convert directly, Match never compares object sizes. Soundness/completeness of the reported paths and ignore-path semantics are not decided. F-okdrop: the success flag of a conversion helper is discarded only for the subject of an enclosing type switch.",
 "Trusted: go/types; the rules are specific to the shape of alt/diff.go (located through the public functions Diff, Compare, Match).",
 "static analysis: control-dependence of early returns on recorded differences, dataflow of key sets, conversion-chain lint",
 "DESIGN.md §4 C19")
claim("C05",
 "Static decision of sibling clauses of Expr.Get: the cells (fragment kind x container type, located through the type switches) are reduced to an index-selection fingerprint and the copies for []any, gen.Array and Indexed (map, gen.Object, Keyed) must keep the fingerprint they share in the frozen sibling table; loop-carried found-flags must be assigned in every iteration before they are tested; multi-valued operands are enumerated as a mixed-radix number. That the shared skeleton is the documented semantics is not decided (no oracle without executing). Two zero-count lints with positive-control fixtures: no append(B, ...) retained in a loop while B is reused (A-appendretain), no member presence decided by comparing a one-result map lookup with nil (M-presence).",
 "Trusted: the sibling table checker/jp_siblings.txt was generated from the pinned tree (classes of >=2 cells with equal fingerprints) - a slip present in every copy is invisible; a behaviour-preserving rewrite of a single copy would be reported.",
 "static analysis: clone-cell extraction via type switches, normalised index-arithmetic fingerprints, sibling class comparison; definite-assignment lint for loop-carried flags",
 "DESIGN.md §3 Engine B, §4 C05")
claim("C11",
 "Static decision of sibling clauses across evaluators and representations: Get, FirstFound, Has, GetNodes and FirstNode cells keep the index-selection fingerprints they share across containers and across the evaluators written as copies of each other (Has/FirstFound, Get/GetNodes, FirstFound/FirstNode); found-flags in Locate/Walk style loops are assigned per iteration. Correctness of the shared skeleton, reflection lookup and normalised path content are not decided. Also A-appendretain and M-presence (see C05).",
 "Trusted: as C05.",
 "static analysis: sibling class comparison of normalised index-arithmetic fingerprints across evaluators; definite-assignment lint",
 "DESIGN.md §3 Engine B, §4 C11")
claim("C13",
 "Static decision of sibling clauses of the mutators: set and modify cells keep the index-selection fingerprints (bounds normalisation, guards, loop bounds, the labelled break that stops the *One forms) they share across []any, gen.Array and Indexed / map, gen.Object, Keyed. The frame condition on untouched data and the structure Set creates are not decided. Known by reading, not reported by a rule: modify/remove treat the slice end bound as inclusive (pinned by jp/remove_test.go). Also A-appendretain and M-presence (see C05).",
 "Trusted: as C05.",
 "static analysis: sibling class comparison of normalised index-arithmetic fingerprints of the mutator cells",
 "DESIGN.md §3 Engine B, §4 C13")
claim("C17",
 "Static decision of the bookkeeping pairing of the streaming matcher: leaf events funnel into one helper with their own value, index increment exactly once per leaf and per container end, exactly one path push per container start and one pop per end, existential target selection, no found-flag shared between fragment arms, and token events of oj.Tokenizer in agreement with the reference at every byte (so a value cannot change on a slow path). PathMatch versus evaluator semantics, order and delivered values are not decided. A key or string assembled after a consumed scratch buffer was not truncated (stale-scratch) is reported here too: the member would not be matched.",
 "Trusted: as C01 for the event part; the pairing rules are specific to jp.MatchHandler (located through its public TokenHandler method names).",
 "static analysis: call-count / dominance rules on the handler's helpers, existential-loop lint, scope lint, product event synchrony for the tokenizer",
 "DESIGN.md §4 C17")
claim("C18",
 "Static decision of the deep-copy discipline and sibling parity of the conversion family: copying arms/methods return a container allocated on every path, store elements only through copying calls, never use unsafe; every kind the decomposing switch handles is handled by Generify; the pretty builders for gen and simple containers are identical copies; gen.Parser and oj.Parser emit the reference's value events (structural part of 'gen.Parser equals Generify of oj.Parser'). Value preservation and text equality are not decided.",
 "Trusted: go/types; the copying functions are located through the public names Dup, Decompose, Generify, Simplify; Alter/GenAlter are exempt (documented in-place).",
 "static analysis: path-sensitive must-assignment of the result from a fresh allocation, element-store lint, twin-body comparison, kind-switch parity, product event synchrony",
 "DESIGN.md §4 C18")
claim("C20",
 "Static decision of structural clauses about assembly plans: recover frame at Plan.Execute with no goroutines or process exits beneath it, no map iteration order reaching an ordered result, the four ordering functions identical up to operators, sort.* only on memory allocated in the activation, per-iteration evaluation scratch maps. What the functions compute and rebuild equivalence of String()/Simplify() are not decided.",
 "Trusted: go/types; rules whose expected count on a healthy tree is zero (map order, scratch maps) are armed by the seeded changes recorded under /verif/seeded, not by an in-tree instance.",
 "static analysis: recover-frame shape check, map-order determinism lint, sibling body comparison, allocation-freshness lints",
 "DESIGN.md §4 C20")
