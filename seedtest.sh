#!/bin/bash
# usage: seedtest.sh <patch.diff> <prop> [<prop>...]  -- apply a seeded change to /repo, run the quick checks, undo.
patch=$1; shift
cd /repo || exit 2
if ! git apply --check "$patch" 2>/dev/null; then
  if ! git apply --3way "$patch" >/dev/null 2>&1; then echo "PATCH-DOES-NOT-APPLY $patch"; git checkout -- . ; exit 3; fi
  git reset -q
else
  git apply "$patch"
fi
for p in "$@"; do
  mkdir -p /tmp/sv; cp /verif/KNOWN_FINDINGS.txt /tmp/sv/ 2>/dev/null; out=$(cd /verif && bin/ojgcheck -prop $p -verif /tmp/sv 2>&1); code=$?
  echo "--- $p exit=$code"
  echo "$out" | grep -E "VIOLATION|rule=|ERROR|KNOWN" | head -8
done
git -C /repo checkout -- .
git -C /repo status --short | head -3
