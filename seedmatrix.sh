#!/bin/bash
# usage: seedmatrix.sh <seed-id> [props...]
#   Runs checks against a scratch worktree of /repo HEAD with seeded/<seed-id>/patch.diff applied
#   (never against /repo itself) and removes the worktree. Without a property list all 20 checks run.
#   Output: $MXV (default /tmp/mxv)/<seed-id>/<Cnn>.log ; one summary line on stdout. OJGCHECK_BIN selects the checker binary.
sid=$1; shift
patch=/verif/seeded/$sid/patch.diff
wt=/tmp/mx/$sid; out=${MXV:-/tmp/mxv}/$sid; bin=${OJGCHECK_BIN:-/verif/bin/ojgcheck}
rm -rf $wt $out; mkdir -p /tmp/mx $out
git -C /repo worktree add -q --detach $wt HEAD || exit 1
( cd $wt && (git apply $patch 2>/dev/null || git apply --3way $patch >/dev/null 2>&1) ) || { echo "$sid PATCH-FAIL"; git -C /repo worktree remove --force $wt; exit 0; }
cp /verif/KNOWN_FINDINGS.txt $out/
props="$@"
[ -z "$props" ] && props="C01 C02 C03 C04 C05 C06 C07 C08 C09 C10 C11 C12 C13 C14 C15 C16 C17 C18 C19 C20"
res=""
for p in $props; do
  $bin -repo $wt -prop $p -verif $out > $out/$p.log 2>&1; code=$?
  if [ $code -ne 0 ]; then res="$res $p=$code"; fi
done
echo "$sid :$res"
git -C /repo worktree remove --force $wt
