#!/bin/bash
# usage: seedmatrix.sh <Cnn> <k> -- run every check against a scratch worktree with the seeded change applied.
id=$1; k=$2; src=/tmp/seedout/$id/m$k
patch=$src/patch.diff; [ -f $src/patch.rebased.diff ] && patch=$src/patch.rebased.diff
wt=/tmp/mx/${id}_$k; out=/tmp/mxv/${id}_$k
rm -rf $wt $out; mkdir -p /tmp/mx $out
git -C /repo worktree add -q --detach $wt HEAD || exit 1
( cd $wt && (git apply $patch 2>/dev/null || git apply --3way $patch >/dev/null 2>&1) ) || { echo "$id m$k PATCH-FAIL"; git -C /repo worktree remove --force $wt; exit 0; }
cp /verif/KNOWN_FINDINGS.txt $out/
res=""
for p in C01 C02 C03 C04 C05 C06 C07 C08 C09 C10 C11 C12 C13 C14 C15 C16 C17 C18 C19 C20; do
  /verif/bin/ojgcheck -repo $wt -prop $p -verif $out > $out/$p.log 2>&1; code=$?
  if [ $code -ne 0 ]; then res="$res $p=$code"; fi
done
echo "$id m$k :$res"
git -C /repo worktree remove --force $wt
