#!/bin/bash
# usage: seedmatrix.sh <Cnn> <k> [props...] -- run checks against a scratch worktree with the seeded change applied.
# Without a property list: the seed's own property, every cheap property, and the properties listed in
# seeded/<id>/meta.json detected_by (if any).
id=$1; k=$2; shift 2
src=/verif/seeded/$id-m$k
patch=$src/patch.diff
wt=/tmp/mx/${id}_$k; out=/tmp/mxv/${id}_$k
rm -rf $wt $out; mkdir -p /tmp/mx $out
git -C /repo worktree add -q --detach $wt HEAD || exit 1
( cd $wt && (git apply $patch 2>/dev/null || git apply --3way $patch >/dev/null 2>&1) ) || { echo "$id m$k PATCH-FAIL"; git -C /repo worktree remove --force $wt; exit 0; }
cp /verif/KNOWN_FINDINGS.txt $out/
props="$@"
if [ -z "$props" ]; then
  props="$id C04 C05 C08 C11 C12 C13 C14 C15 C16 C19 C20 $(cat /tmp/seed_extra/${id}_$k 2>/dev/null)"
  props=$(echo $props | tr ' ' '\n' | sort -u | tr '\n' ' ')
fi
res=""
for p in $props; do
  /verif/bin/ojgcheck -repo $wt -prop $p -verif $out > $out/$p.log 2>&1; code=$?
  if [ $code -ne 0 ]; then res="$res $p=$code"; fi
done
echo "$id m$k :$res"
git -C /repo worktree remove --force $wt
